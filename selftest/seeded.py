#!/venv/bin/python
"""Run the registered quick checks against the seeded changes kept under /verif/seeded/<id>/.

For each seeded change: copy /repo's working tree to a scratch directory outside /repo and /verif, apply
patch.diff there, confirm that the demonstration fails with the change (and passes without it), run the
checks listed in meta.json["expected_checks"] (or all with --all) with VERIF_SRC=<scratch>, expect exit 1.

usage: selftest/seeded.py [--all] [--demo-only] [id-substring ...]
"""
import json
import os
import shutil
import subprocess
import sys
import tempfile

HERE = os.path.dirname(os.path.dirname(os.path.abspath(__file__)))
ALL = [f"C{i:02d}" for i in range(1, 21)]


def run_demo(src, demo):
    env = dict(os.environ, PYTHONPATH=src, PYTHONDONTWRITEBYTECODE="1", TMPDIR=os.path.dirname(src))  # demos may create temporary files: keep them in the scratch directory
    r = subprocess.run(["/venv/bin/python", demo], cwd=src, env=env, capture_output=True, text=True, timeout=600)
    return r.returncode, (r.stdout + r.stderr)[-300:]


def main(argv):
    run_all = "--all" in argv
    demo_only = "--demo-only" in argv
    names = [a for a in argv if not a.startswith("--")]
    root = os.path.join(HERE, "seeded")
    missed = []
    for sid in sorted(os.listdir(root)):
        d = os.path.join(root, sid)
        if not os.path.isdir(d) or (names and not any(n in sid for n in names)):
            continue
        meta = json.load(open(os.path.join(d, "meta.json")))
        if meta.get("obsolete"):
            print(f"[{sid}] skipped: {meta['obsolete']}")
            continue
        scratch = tempfile.mkdtemp(prefix="vf_seed_")
        try:
            src = os.path.join(scratch, "repo")
            shutil.copytree("/repo", src, ignore=shutil.ignore_patterns(".git", "__pycache__", ".test_cache", "*.pyc"))
            demo = os.path.join(d, meta["demo"])
            rc0, out0 = run_demo(src, demo)
            r = subprocess.run(["git", "apply", "--whitespace=nowarn", os.path.join(d, "patch.diff")], cwd=src, capture_output=True, text=True)
            if r.returncode != 0:
                print(f"[{sid}] patch does not apply to the current tree: {r.stderr[-300:]}")
                missed.append((sid, "apply"))
                continue
            rc1, out1 = run_demo(src, demo)
            print(f"[{sid}] breaks {meta['property']}: demo without change exit={rc0}, with change exit={rc1}")
            if rc0 != 0 or rc1 == 0:
                print(f"[{sid}]   demonstration does not discriminate: {out0!r} / {out1!r}")
            if demo_only:
                continue
            checks = ALL if run_all else meta.get("expected_checks", [meta["property"]])
            for p in checks:
                env = dict(os.environ, VERIF_SRC=src, VERIF_NO_SHRINK="1", VERIF_EVIDENCE_DIR=os.path.join(HERE, "out", "selftest-evidence"), VERIF_OUT_DIR=os.path.join(HERE, "out", "selftest-out"))
                r = subprocess.run([os.path.join(HERE, "bin", "check"), p, "--tier", "quick"], env=env, capture_output=True, text=True)
                buckets = [l.strip()[:140] for l in r.stdout.splitlines() if l.startswith("  bucket=")]
                status = "CAUGHT" if r.returncode == 1 else f"not caught (exit {r.returncode})"
                print(f"[{sid}]   {p}: {status} {buckets[:2]}")
                if r.returncode == 2:
                    print(r.stderr[-600:])
                if r.returncode != 1 and p in meta.get("expected_checks", [meta["property"]]):
                    missed.append((sid, p))
        finally:
            shutil.rmtree(scratch, ignore_errors=True)
    print("missed:", missed)
    return 1 if missed else 0


if __name__ == "__main__":
    sys.exit(main(sys.argv[1:]))
