#!/venv/bin/python
"""Copy a sub-agent's seeded change from its worktree into /verif/seeded/<id>/ (patch.diff, demo, meta.json).
usage: selftest/ingest.py <PROP> <slug> <worktree> "<what it needs to manifest>" [expected checks...]"""
import json, os, shutil, subprocess, sys
HERE = os.path.dirname(os.path.dirname(os.path.abspath(__file__)))
prop, slug, wt, needs, *expected = sys.argv[1:]
d = os.path.join(HERE, "seeded", f"{prop}-{slug}")
os.makedirs(d, exist_ok=True)
patch = subprocess.run(["git", "diff", "--", "eyecite"], cwd=wt, capture_output=True, text=True).stdout
assert patch.strip(), "no source change in worktree"
open(os.path.join(d, "patch.diff"), "w").write(patch)
demo = f"demo_{prop}.py"
shutil.copy(os.path.join(wt, demo), os.path.join(d, demo))
meta = {"property": prop, "demo": demo, "needs": needs, "expected_checks": expected or [prop],
        "origin": "written by an independent sub-agent given only the property text and its own worktree",
        "confirmed": "selftest/seeded.py: patch applies to /repo HEAD, 50 repository tests pass with it, demo exits 0 without and 1 with the change"}
json.dump(meta, open(os.path.join(d, "meta.json"), "w"), indent=1)
print("ingested", d)
