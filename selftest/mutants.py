#!/venv/bin/python
"""Sensitivity self-test (not a registered check): apply one small mutation to a scratch copy of /repo
(outside /repo and /verif), run the relevant quick checks with VERIF_SRC=<scratch>, expect exit 1.

usage: selftest/mutants.py [name-substring ...]      (no args: all mutants)
"""
import os
import shutil
import subprocess
import sys
import tempfile

HERE = os.path.dirname(os.path.dirname(os.path.abspath(__file__)))

# (name, file, old, new, [properties expected to catch it])
MUTANTS = [
    ("resolve-first-of-several-names", "eyecite/resolve.py",
     "    matches = list(set(matches))\n    return matches[0] if len(matches) == 1 else None\n\n\ndef _filter_by_matching_plaintiff",
     "    matches = list(set(matches))\n    return matches[0] if len(matches) >= 1 else None\n\n\ndef _filter_by_matching_plaintiff", ["C07"]),
    ("resolve-keep-last-resolution", "eyecite/resolve.py",
     "        last_resolution = resolution\n        if resolution:",
     "        if resolution:\n            last_resolution = resolution\n        if resolution:", ["C07", "C05"]),
    ("resolve-pin-window-1500", "eyecite/resolve.py", "MAX_OPINION_PAGE_COUNT = 150", "MAX_OPINION_PAGE_COUNT = 1500", ["C07", "C05"]),
    ("resolve-short-ignores-volume", "eyecite/resolve.py",
     "            and short_citation.groups.get(\"volume\")\n            == full_citation.groups.get(\"volume\")\n", "", ["C07"]),
    ("resolve-unknown-attached", "eyecite/resolve.py",
     "        else:\n            resolution = None\n\n        last_resolution",
     "        else:\n            resolution = last_resolution\n\n        last_resolution", ["C06"]),
    ("resolve-supra-lookahead", "eyecite/resolve.py",
     "            resolution = resolve_supra_citation(citation, resolved_full_cites)",
     "            resolution = resolve_supra_citation(citation, [(c, resolve_full_citation(c)) for c in citations if isinstance(c, FullCitation)])",
     ["C08"]),
    ("tokenize-no-rewind", "eyecite/tokenizers.py", "                    offset = last_token.start\n", "", ["C12"]),
    ("filter-sort-fullspan", "eyecite/helpers.py", "    filtered_citations.sort(key=lambda citation: citation.span())",
     "    filtered_citations.sort(key=lambda citation: citation.full_span())", ["C03"]),
    ("pin-cite-no-clamp", "eyecite/helpers.py", "            extra_chars = max(\n                len(m[\"pin_cite\"].rstrip(\", \")) - len(prefix), 0\n            )",
     "            extra_chars = len(m[\"pin_cite\"].rstrip(\", \")) - len(prefix)", ["C02"]),
    ("d26-int-limit", "eyecite/resolve.py", "    try:\n        page = int(full_cite.groups[\"page\"])\n    except ValueError:\n        # a digit string too long to be converted lies beyond any pin cite\n        return True\n",
     "    page = int(full_cite.groups[\"page\"])\n", ["C04"]),
    ("year-no-upper-bound", "eyecite/helpers.py", "    if year < 1600 or year > _highest_valid_year:", "    if year < 1600:", ["C18"]),
    ("ac-filter-lower-only-text", "eyecite/tokenizers.py", "            (s.lower(), e)\n", "            (s, e)\n", ["C13"]),
    ("parallel-none-start", "eyecite/models.py", "            self.full_span_start is not None\n            and self.full_span_start == preceding.full_span_start",
     "            self.full_span_start == preceding.full_span_start", ["C17"]),
    ("journal-placeholder-hash", "eyecite/models.py", "        if \"page\" in self.groups and self.groups[\"page\"] is None:\n            return id(self)\n        return hash(\n            hash_sha256(\n                {\n                    **dict(self.groups.items()),\n                    **{\n                        \"all_editions\"",
     "        return hash(\n            hash_sha256(\n                {\n                    **dict(self.groups.items()),\n                    **{\n                        \"all_editions\"", ["C06", "C16"]),
    ("annotate-no-clamp-end", "eyecite/annotate.py", "            end = max(start, offset_updater.update(end, bisect_left))",
     "            end = offset_updater.update(end, bisect_left)", ["C09", "C11"]),
    ("annotate-style-repair-overlap", "eyecite/annotate.py", "                if start < last_end or not is_balanced_html(span_text):",
     "                if not is_balanced_html(span_text):", ["C09", "C11"]),
    ("annotate-bisect-swap-start", "eyecite/annotate.py", "            start = offset_updater.update(start, bisect_right)",
     "            start = offset_updater.update(start, bisect_left)", ["C10"]),
    ("annotate-bisect-swap-end", "eyecite/annotate.py", "offset_updater.update(end, bisect_left))", "offset_updater.update(end, bisect_right))", ["C10"]),
    ("annotate-no-overlap-clip", "eyecite/annotate.py", "            start = last_end\n            if start >= end:", "            if start >= end:", ["C09"]),
    ("wrap-no-reopen", "eyecite/utils.py", 'rf"{before}\\1{after}"', 'rf"{before}\\1"', ["C11"]),
    ("skip-no-retest", "eyecite/annotate.py", "                if start < last_end or not is_balanced_html(span_text):",
     "                if start < last_end:", ["C11"]),
    ("spanupdater-delta", "eyecite/annotate.py", "                delta -= amount\n", "                delta -= amount - 1\n", ["C10"]),
    ("clean-underscores-three", "eyecite/clean.py", 'return re.sub(r"__+", "", text)', 'return re.sub(r"___+", "", text)', ["C20"]),
    ("clean-allws-ascii", "eyecite/clean.py", 'return re.sub(r"\\s+", " ", text)', 'return re.sub(r"[ \\t\\n\\r]+", " ", text)', ["C20"]),
    ("clean-html-keep-script", "eyecite/clean.py", "            parent::script)]", "            parent::noscript)]", ["C20"]),
    ("clean-steps-skip-callable", "eyecite/clean.py", "        elif callable(step):\n            step_func = step", "        elif callable(step):\n            continue", ["C20"]),
    ("ac-extractors-set", "eyecite/tokenizers.py", "        return sorted(\n            unique_extractors, key=lambda e: self._extractor_order[id(e)]\n        )",
     "        return unique_extractors", ["C15", "C13"]),
    ("merge-editions-set", "eyecite/models.py", "                self.exact_editions = tuple(dict.fromkeys(self.exact_editions))",
     "                self.exact_editions = tuple(set(self.exact_editions))", ["C15"]),
    ("ac-shared-selection", "eyecite/tokenizers.py",
     [("        unique_extractors = set(self.unfiltered_extractors)\n", "        self._selection = set(self.unfiltered_extractors)\n"),
      ("                unique_extractors.update(extractors)", "                self._selection.update(extractors)"),
      ("            unique_extractors, key=lambda e: self._extractor_order[id(e)]", "            self._selection, key=lambda e: self._extractor_order[id(e)]")],
     None, ["C15"]),
    ("hash-found-reporter", "eyecite/models.py", '                            "reporter": self.corrected_reporter(),', '                            "reporter": self.groups["reporter"],', ["C16"]),
    ("hash-includes-year", "eyecite/models.py", '                            "class": type(self).__name__,\n                        },\n                    }\n                )\n            )\n\n    @dataclass(eq=True, unsafe_hash=True)\n    class Metadata(FullCitation.Metadata):\n        """Define fields on self.metadata."""\n\n        # court',
     '                            "class": type(self).__name__,\n                            "year": self.year,\n                        },\n                    }\n                )\n            )\n\n    @dataclass(eq=True, unsafe_hash=True)\n    class Metadata(FullCitation.Metadata):\n        """Define fields on self.metadata."""\n\n        # court', ["C16"]),
    ("hash-placeholder-by-value", "eyecite/models.py", '        if self.groups["page"] is None:\n            return id(self)\n        else:\n            return hash(', '        if False:\n            return id(self)\n        else:\n            return hash(', ["C16", "C06"]),
    ("hash-ignores-class", "eyecite/models.py", '                            "reporter": self.corrected_reporter(),\n                            "class": type(self).__name__,', '                            "reporter": self.corrected_reporter(),', ["C16"]),
    ("markup-search-from-0", "eyecite/find.py", "        start_in_markup = document.plain_to_markup.update(\n            citation.span()[0], bisect_right\n        )",
     "        start_in_markup = 0", ["C19"]),
    ("markup-drop-valid-name", "eyecite/find.py", "            if not is_valid_name(value):\n                continue\n", "", ["C19"]),
    ("pincited-drop-valid-name", "eyecite/find.py", "        if (value := getattr(citation.metadata, key, None))\n        and is_valid_name(value)\n",
     "        if (value := getattr(citation.metadata, key, None))\n", ["C19"]),
    ("hs-no-char-widening", "eyecite/tokenizers.py", "(self.extractors[index], (char_start(start), char_end(end)))", "(self.extractors[index], (start, end))", ["C14"]),
    ("hs-substring-rematch", "eyecite/tokenizers.py",
     [("                m = extractor.compiled_regex.match(text, start)\n                if m is None or m.end() != end:", "                m = extractor.compiled_regex.match(text[start:end])\n                if m is None:"),
      ("                yield extractor.get_token(m)\n\n    @property", "                yield extractor.get_token(m, offset=start)\n\n    @property")], None, ["C14"]),
    ("hs-cache-only-invalid-error", "eyecite/tokenizers.py", "                    except hyperscan.error:", "                    except hyperscan.InvalidError:", ["C14"]),
    ("hs-no-section-conversion", "eyecite/tokenizers.py", "                if long_chars:\n", "                if False:\n", ["C14"]),
    ("hs-cache-no-fallback", "eyecite/tokenizers.py", "                    except hyperscan.error:\n", "                    except hyperscan.DatabaseVersionError:\n", ["C14"]),
    ("c01-drop-variation-regex", "eyecite/tokenizers.py", "            if variations:\n                regex = _substitute_edition(regex_template, *variations)",
     "            if variations and len(variations) < 3:\n                regex = _substitute_edition(regex_template, *variations)", ["C01"]),
    ("c01-short-cite-re", "eyecite/regexes.py", 'return regex.replace("(?P<page>", "at (?P<page>")', 'return regex.replace(",? (?P<page>", " at (?P<page>")', ["C01"]),
    ("c01-court-prefix-first", "eyecite/helpers.py", "            if s == court_str:\n                return str(court[\"id\"])", "            if s == court_str and court_code is None:\n                return str(court[\"id\"])", ["C01"]),
    ("c01-court-startswith-returns", "eyecite/helpers.py", "            if s.startswith(court_str):\n                court_code = court[\"id\"]", "            if s.startswith(court_str):\n                return court[\"id\"]", ["C01"]),
    ("c01-fullspan-end-off-by-one", "eyecite/helpers.py", "    citation.full_span_end = citation.span()[1] + m.end()\n    citation.metadata.pin_cite = clean_pin_cite(m[\"pin_cite\"]) or None\n    if m[\"pin_cite\"]:\n        citation.metadata.pin_cite_span_end",
     "    citation.full_span_end = citation.span()[1] + m.end() - 1\n    citation.metadata.pin_cite = clean_pin_cite(m[\"pin_cite\"]) or None\n    if m[\"pin_cite\"]:\n        citation.metadata.pin_cite_span_end", ["C01"]),
    ("c01-pin-terminator", "eyecite/regexes.py", "            [,.;)\\]\\\\]|  # ending punctuation", "            [,.)\\]\\\\]|  # ending punctuation", ["C01"]),
    ("c01-merge-drops-editions", "eyecite/models.py", "                self.variation_editions = cast(\n                    tuple, self.variation_editions\n                ) + cast(tuple, other.variation_editions)", "                self.variation_editions = cast(tuple, self.variation_editions)", ["C01"]),
    ("c01-defendant-keeps-comma", "eyecite/helpers.py", '        ).strip(", (")\n        if defendant.strip():', '        ).strip(" (")\n        if defendant.strip():', ["C01"]),
    ("c01-year-regex-3-digits", "eyecite/regexes.py", "            \\d{4}\n        )\n        # Year is occasionally", "            \\d{3,4}\n        )\n        # Year is occasionally", ["C01"]),
]


def run(names):
    failures = []
    for name, path, old, new, props in MUTANTS:
        if names and not any(n in name for n in names):
            continue
        scratch = tempfile.mkdtemp(prefix="vf_mut_")
        try:
            dst = os.path.join(scratch, "repo")
            shutil.copytree("/repo", dst, ignore=shutil.ignore_patterns(".git", "__pycache__", ".test_cache", "*.pyc"))
            fp = os.path.join(dst, path)
            src = open(fp, encoding="utf8").read()
            pairs = old if isinstance(old, list) else [(old, new)]
            if any(o not in src for o, _ in pairs):
                print(f"[{name}] SKIP: anchor text not found in {path}")
                failures.append((name, "anchor"))
                continue
            for o, n_ in pairs:
                src = src.replace(o, n_)
            open(fp, "w", encoding="utf8").write(src)
            for p in props:
                if not os.path.exists(os.path.join(HERE, "vf", "props", p.lower() + ".py")):
                    print(f"[{name}] {p}: check not built yet")
                    continue
                env = dict(os.environ, VERIF_SRC=dst, VERIF_NO_SHRINK="1", VERIF_EVIDENCE_DIR=os.path.join(HERE, "out", "selftest-evidence"), VERIF_OUT_DIR=os.path.join(HERE, "out", "selftest-out"))
                r = subprocess.run([os.path.join(HERE, "bin", "check"), p, "--tier", "quick"], env=env, capture_output=True, text=True)
                viol = [l for l in r.stdout.splitlines() if l.startswith("VIOLATION")]
                buckets = [l.strip() for l in r.stdout.splitlines() if l.startswith("  bucket=")]
                status = "CAUGHT" if r.returncode == 1 and viol else f"MISSED (exit {r.returncode})"
                print(f"[{name}] {p}: {status} {[b[:110] for b in buckets[:3]]}")
                if r.returncode == 2:
                    print(r.stderr[-800:])
                if r.returncode != 1:
                    failures.append((name, p))
        finally:
            shutil.rmtree(scratch, ignore_errors=True)
    return failures


if __name__ == "__main__":
    f = run(sys.argv[1:])
    print("missed:", f)
    sys.exit(1 if f else 0)
