"""Child of the C15 process phase: a fresh interpreter (its own PYTHONHASHSEED) serialising extraction results."""
import json
import logging
import sys


def main():
    logging.disable(logging.CRITICAL)
    corpus_path, out_path, tokenizer_name = sys.argv[1:4]
    from eyecite import get_citations
    from eyecite.tokenizers import HyperscanTokenizer, Tokenizer, default_tokenizer

    from vf.ser import ser

    reverse = tokenizer_name.endswith("-rev")
    tokenizer_name = tokenizer_name.replace("-rev", "")
    tok = {"ac": lambda: default_tokenizer, "hs": HyperscanTokenizer, "ref": Tokenizer}[tokenizer_name]()
    corpus = json.load(open(corpus_path, encoding="utf8"))
    out = []
    order = list(range(len(corpus)))
    if reverse:
        order.reverse()
    results = {}
    for idx in order:
        item = corpus[idx]
        try:
            if "markup" in item:
                cs = get_citations(markup_text=item["markup"], clean_steps=item["steps"], tokenizer=tok, remove_ambiguous=item.get("ra", False))
            else:
                cs = get_citations(item["text"], tokenizer=tok, remove_ambiguous=item.get("ra", False))
            results[idx] = ser(cs)
        except Exception as e:  # noqa: BLE001
            results[idx] = f"RAISED {type(e).__name__}"
    out = [results[i] for i in range(len(corpus))]
    json.dump(out, open(out_path, "w", encoding="utf8"), ensure_ascii=False)


if __name__ == "__main__":
    main()
