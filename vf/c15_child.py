"""Child of the C15 process phase: a fresh interpreter (its own PYTHONHASHSEED) serialising extraction results."""
import json
import logging
import sys


def main():
    logging.disable(logging.CRITICAL)
    corpus_path, out_path, tokenizer_name = sys.argv[1:4]
    from eyecite import get_citations
    from eyecite.tokenizers import HyperscanTokenizer, Tokenizer, default_tokenizer

    from vf.ser import ser

    tok = {"ac": lambda: default_tokenizer, "hs": HyperscanTokenizer, "ref": Tokenizer}[tokenizer_name]()
    corpus = json.load(open(corpus_path, encoding="utf8"))
    out = []
    for item in corpus:
        try:
            if "markup" in item:
                cs = get_citations(markup_text=item["markup"], clean_steps=item["steps"], tokenizer=tok, remove_ambiguous=item.get("ra", False))
            else:
                cs = get_citations(item["text"], tokenizer=tok, remove_ambiguous=item.get("ra", False))
            out.append(ser(cs))
        except Exception as e:  # noqa: BLE001
            out.append(f"RAISED {type(e).__name__}")
    json.dump(out, open(out_path, "w", encoding="utf8"), ensure_ascii=False)


if __name__ == "__main__":
    main()
