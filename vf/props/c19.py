"""C19 - markup mode only adds well-founded reference citations."""
import re

from hypothesis import strategies as st

from vf import tk
from vf.core import Phase, Raised, Res, call
from vf.gen import markup as mk
from vf.props.c02 import check_offsets

ID = "C19"
RULE = (
    "scenario documents rendered as markup so that references actually occur (1-3 synthetic cases incl. party names the "
    "validity rule rejects; statements full / italic mention / 'Name at N' / id / short / supra / filler; <i>/<em> around "
    "names with/without trailing punctuation or inner space; optional <p> wrapping) plus marked-up grammar documents, x "
    "step lists containing html. Oracle: non-reference citations in markup mode equal those for the cleaned text "
    "(class, spans, full spans, pin spans, groups, metadata); every reference (both modes) has valid offsets in the "
    "cleaned text, an earlier full case citation in the result carrying the same name in the same name field, a name "
    "that passes an independent re-implementation of the validity rule and occurs in the text at the reference's span, "
    "and starts at or after that citation's end. Non-trivial: >= 1 reference citation returned; distinct = distinct case"
)
ASSUMPTIONS = ["the list of disallowed names is read as data from eyecite.utils.DISALLOWED_NAMES; the rule itself is re-implemented",
               "clean_text is trusted here (checked by C20)"]
SYL = ["ka", "lo", "mi", "ren", "tov", "bar", "zen", "qua", "dri", "fel", "gor", "hup", "jin", "vas", "wim", "yor", "plu", "sha", "cre", "bo"]
# names at the boundary of every conjunct of the validity rule (too short; first character not upper case - with and
# without capitals further on, or without any cased character; trailing full stop; digits only; disallowed words)
BAD_NAMES = ["State", "United States", "People", "Mass", "Co.", "Al", "Inc.", "Commonwealth", "1234", "lowercase", "Xy",
             "al-Kidd", "eBay", "de Leon", "du Pont", "iPhone", "$124,570", "1st Bank", "\u00dfeta", "\u0661\u0662\u0663", "\u00b2\u00b3\u00b9",
             "Smithco.", "Q", "von Braun", "mcDonald", "x-Ray"]
# unusual names the rule admits
ODD_NAMES = ["\u00c9clair", "O'Brien", "McDonald", "X-Ray", "ABC", "Pe\u00f1a", "D'Amato", "\u0141o\u015b", "\u042f\u043a\u043e\u0432\u043b\u0435\u0432", "Int'l", "AT&T",
             "De Leon", "Van Buren", "La Salle", "Wal Mart"]
REPS = ["U.S.", "F.2d", "F.3d", "S. Ct.", "A.2d", "N.E.2d", "U. S."]
FILL = ["The court considered the matter at length.", "That reasoning is persuasive.", "We disagree with the dissent &amp; concurrence.",
        "Nothing in the record suggests otherwise.",
        # text that is not in Unicode normal form C (letter + combining mark, singletons), curly quotes, a section sign
        "The re\u0301sume\u0301 of the na\u0308ive clerk weighed 5 \u212b.", "See \u201cthe record\u201d \u2014 \u00a7 5 \u2014 passim."]


def setup(tier):
    tk.get(("ac", "hs"))


def valid_name(name):
    from eyecite.utils import DISALLOWED_NAMES

    return isinstance(name, str) and len(name) > 2 and name[0].isupper() and not name.endswith(".") and not name.isdigit() \
        and name.lower() not in DISALLOWED_NAMES


def key(c):
    return (type(c).__name__, c.span(), c.full_span(), c.span_with_pincite(), tuple(sorted((k, str(v)) for k, v in c.groups.items())),
            tuple(sorted((k, str(v)) for k, v in c.metadata.__dict__.items())), getattr(c, "year", None))


def _ws(s):
    return re.sub(r"\s+", " ", s.strip())


def evaluate(case):
    from eyecite import clean_text, get_citations
    from eyecite.models import FullCaseCitation, ReferenceCitation

    res = Res()
    m, steps = case["markup"], case["steps"]
    for w in case.get("warmup", []):  # documents processed earlier in the same process
        call(get_citations, markup_text=w, clean_steps=list(steps))
        res.label("after-warmup")
    plain = call(clean_text, m, steps)
    if isinstance(plain, Raised):
        res.label("raised")
        return res
    tok = tk.get((case.get("tokenizer", "ac"),))[case.get("tokenizer", "ac")]
    res.label("tokenizer:" + case.get("tokenizer", "ac"))
    a = call(get_citations, markup_text=m, clean_steps=list(steps), tokenizer=tok)
    b = call(get_citations, plain, tokenizer=tok)
    if isinstance(a, Raised) or isinstance(b, Raised):
        res.label("raised")
        return res
    an = [key(c) for c in a if not isinstance(c, ReferenceCitation)]
    bn = [key(c) for c in b if not isinstance(c, ReferenceCitation)]
    if an != bn:
        only_a = [x for x in an if x not in bn][:1]
        only_b = [x for x in bn if x not in an][:1]
        res.v("non-reference-citations-differ", f"markup mode only: {only_a}; plain mode only: {only_b}")
    nref = 0
    for lst, mode in ((a, "markup"), (b, "plain")):
        refs = [c for c in lst if isinstance(c, ReferenceCitation)]
        nref += len(refs)
        sub = Res()
        check_offsets(sub, refs, plain, suffix=":" + mode)
        for bkt, det in sub.violations:
            res.v("reference-offsets:" + bkt, det)
        if sub.violations:
            continue
        for c in refs:
            s0, s1 = c.span()
            names = [(k_, getattr(c.metadata, k_)) for k_ in ReferenceCitation.name_fields if getattr(c.metadata, k_, None)]
            founded = None
            why = "no-name"
            for k_, v in names:
                if not valid_name(v):
                    why = "invalid-name"
                    continue
                if _ws(v) not in _ws(plain[s0:s1]):
                    why = "name-not-at-span"
                    continue
                # names are compared whitespace-normalised: the markup pattern strips the name it searches for, while
                # the citation's own field may keep a trailing blank ("Bar  (2025) 5 P 1" -> defendant 'Bar ')
                src = [d for d in lst if isinstance(d, FullCaseCitation) and getattr(d.metadata, k_, None) and _ws(getattr(d.metadata, k_)) == _ws(v)]
                if not src:
                    why = "no-source-citation"
                    continue
                if not any(d.span()[1] <= s0 for d in src):
                    why = "before-source-citation"
                    continue
                founded = True
            if not founded:
                res.v(f"reference-unfounded:{why}:{mode}", f"{c!r} span={c.span()} text={plain[s0:s1]!r} names={names} in {plain!r}")
    if nref:
        res.label("has-reference")
    if any(type(c).__name__ == "ReferenceCitation" and c.metadata.pin_cite is None for c in a):
        res.label("markup-derived-reference")
    res.nontrivial = nref > 0
    return res


@st.composite
def _names(draw, n):
    used = []
    while len(used) < n:
        k0 = draw(st.integers(0, 6))
        if k0 == 0:
            nm = draw(st.sampled_from(BAD_NAMES))
        elif k0 == 1:
            nm = draw(st.sampled_from(["Roe", "Doe", "Poe", "Cox", "Lee"] + ODD_NAMES))  # the shortest names the rule admits, and odd ones
        elif k0 == 2:
            nm = draw(st.sampled_from(ODD_NAMES))
        else:
            nm = "".join(draw(st.lists(st.sampled_from(SYL), min_size=2, max_size=3))).capitalize()
        if len(nm) > 1 and all(nm not in u and u not in nm for u in used):
            used.append(nm)
    return used


@st.composite
def scenario_markup(draw):
    k = draw(st.integers(1, 3))
    names = draw(_names(2 * k))
    cases = [dict(pl=names[2 * i], df=names[2 * i + 1], rep=draw(st.sampled_from(REPS)), vol=draw(st.integers(1, 500)),
                  page=draw(st.integers(1, 900)), year=draw(st.integers(1950, 2020))) for i in range(k)]

    def it(nm, tail=""):
        tag = draw(st.sampled_from(["i", "em"]))
        sp = draw(st.sampled_from(["", "", " "]))
        return f"<{tag}>{sp}{nm}{tail}</{tag}>"

    cited = []
    parts = []
    for _ in range(draw(st.integers(1, 7))):
        kind = draw(st.sampled_from(["full", "full", "mention", "mention", "ref", "ref", "id", "short", "supra", "fill", "fill"]))
        if kind == "full" or not cited:
            i = draw(st.integers(0, k - 1))
            c = cases[i]
            style = draw(st.integers(0, 9))
            if style < 4:
                nm = it(c["pl"] + " v. " + c["df"], draw(st.sampled_from(["", ",", ", "])))
            elif style < 7:
                nm = f"{it(c['pl'])} v. {it(c['df'], draw(st.sampled_from(['', ','])))}"
            else:
                nm = f"{c['pl']} v. {c['df']},"
            if not nm.rstrip().endswith((",", ">")):
                nm += ","
            rep = c["rep"] if draw(st.booleans()) else "<i>" + c["rep"] + "</i>"
            s = f"{nm} {c['vol']} {rep} {c['page']} ({c['year']})."
            if i not in cited:
                cited.append(i)
        elif kind == "fill":
            s = draw(st.sampled_from(FILL))
        else:
            i = draw(st.sampled_from(cited))
            c = cases[i]
            nm = draw(st.sampled_from([c["pl"], c["df"]]))
            if " " in nm and draw(st.integers(0, 2)) == 0:
                nm = nm.replace(" ", "")  # the words of a multi-word name run together: a different string, not the name
            elif draw(st.integers(0, 5)) == 0:
                nm = nm.lower() if draw(st.booleans()) else nm.upper()  # the same letters in another case: an ordinary word, not the name
            pin = c["page"] + draw(st.integers(0, 50))
            if kind == "mention":
                wrap = draw(st.sampled_from([("In ", " the"), ("In ", " the"), ("The rule of (", ") was; the"), ("See “", "” where the"), ("in\u00a0", "\u00a0the")]))
                s = f"{wrap[0]}{it(nm, draw(st.sampled_from(['', '', ',', '.', ', ', ';'])))}{wrap[1]} court {draw(st.sampled_from(['held', 'agreed', 'said']))} so."
            elif kind == "ref":
                s = f"See {nm if draw(st.booleans()) else it(nm)} at {pin}."
            elif kind == "id":
                s = f"{it('Id.')} at {pin}."
            elif kind == "short":
                s = f"{it(nm, ',')} {c['vol']} {c['rep']}, at {pin}."
            else:
                s = f"{it(nm + ', supra')}, at {pin}."
        parts.append(s)
    if draw(st.integers(0, 2)) == 0:
        m = "".join(f"<p>{p}</p>" + draw(st.sampled_from(["", "\n", " "])) for p in parts)
    else:
        m = " ".join(parts)
        if draw(st.booleans()):
            m = "<div>" + m + "</div>"
    return {"markup": m, "steps": list(draw(st.sampled_from(mk.STEP_LISTS)))}


@st.composite
def after_other_names(draw):
    """A document processed after others that cite the same volume/reporter/page under different (or no) names."""
    names = draw(st.lists(st.sampled_from(["Kalomi", "Rentov", "Zenqua", "Drifel", "Gorhup", "Vaswim", "Miranda", "Arizona"]), min_size=4, max_size=4, unique=True))
    a, b, c, d = names
    cite = f"{draw(st.integers(1, 500))} {draw(st.sampled_from(REPS))} {draw(st.integers(1, 900))}"
    docs = [
        f"<i>{a}</i> v. <i>{b}</i>, {cite} (1999). Later the <i>{a}</i> court said so; see <em>{b}</em>.",
        f"See {cite} (1999). The <i>{a}</i> court and the <em>{c}</em> court agreed.",
        f"{c} v. {d}, {cite}. In <em>{c}</em> and in <i>{a}</i> the rule was stated; <i>{d},</i> too.",
        f"<p>{a} v. {c}, {cite}.</p> <p>See <i>{b}</i> and <i>{c}</i>.</p>",
    ]
    order = draw(st.permutations(docs))
    k = draw(st.integers(1, 3))
    return {"markup": order[k], "steps": list(draw(st.sampled_from(mk.STEP_LISTS[:3]))), "warmup": list(order[:k])}


def phases(tier):
    n, n2 = (5000, 1500) if tier == "quick" else (200000, 60000)
    return [
        Phase("scenario-markup", "gen", strategy=scenario_markup, n=n),
        Phase("grammar-markup", "gen", strategy=lambda: mk.marked_up(p_wrap=5), n=n2),
        Phase("after-other-names", "gen", strategy=after_other_names, n=n2),
        Phase("scenario-markup-hs", "gen", strategy=lambda: scenario_markup().map(lambda c: {**c, "tokenizer": "hs"}), n=n // 5),
    ]
