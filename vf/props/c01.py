"""C01 - standard citation forms are recognised with exact components and offsets (ground-truth writer)."""
import datetime
import re

from hypothesis import strategies as st

from vf import tk
from vf.core import Phase, Raised, Res, call
from vf.gen import inventory as inv
from vf.gen.readings import readings

ID = "C01"
RULE = (
    "a ground-truth writer renders citations and remembers every component and offset. Exhaustive: every plain-shape "
    "reporter/law/journal string in 'V R P', and every plain-shape case reporter in 'V R at P.' and "
    "'V R, at P-Q (paren).'; every reporters-db example citation embedded in prose; every parenthetical-safe courts-db "
    "string in a fixed full-case form. Sampled (Hypothesis): reporter string from the whole plain inventory x volume/"
    "page (digits, roman, placeholder) x pin-cite shapes derived from PIN_CITE_TOKEN_REGEX x year (incl. range "
    "boundaries) x court string x synthetic 1-4-word party names x balanced/nested parenthetical x optional parallel "
    "cite x signal x form (full case, short, supra, id., statute with publisher/month/day/year, journal) x prose x "
    "documented terminator. Oracle: exactly one citation of the expected kind per written citation with the written "
    "span, groups, pin cite, year, court id (independent 'exact match first' lookup), defendant, antecedent, "
    "parenthetical, plaintiff suffix, candidate editions and full span. Non-trivial: a distinct (reporter string, "
    "form) pair, or a sampled citation with >= 2 optional components; distinct = distinct case"
)
ASSUMPTIONS = [
    "preconditions of the statement are enforced by construction or counted when they discard a case: the written core has a single "
    "pattern reading (computed from the pattern strings with Python re, independently of the tokenizers); strings ending in ',' or ' at' are not written",
    "party names and prose come from a vocabulary verified per case to yield no token on its own",
    "nominative reporters are written with one- or two-digit volumes (their own templates), others with 1-3 digits",
]
TODAY = datetime.date.today().year
SYL = ["ka", "lo", "mi", "ren", "tov", "bar", "zen", "qua", "dri", "fel", "gor", "hup", "jin", "vas", "wim", "yor", "plu", "sha", "cre", "bo"]
PROSE = ["The court then turned to the merits", "That reasoning was later adopted", "We find this persuasive", "As the panel explained",
         "Nothing more was said"]
AFTER = ["", " The panel agreed", " That was the end of it"]
LONG_WORDS = ["the", "panel", "then", "turned", "to", "merits", "and", "found", "this", "reasoning", "persuasive", "because", "record", "showed", "nothing", "else"]


def prose_for(case):
    """Neutral prose in front of the citation; optionally longer than the 300-character backward scan window."""
    base = PROSE[case.get("prose", 0) % len(PROSE)]
    n = case.get("long", 0)
    if not n:
        return base
    words = [LONG_WORDS[(i * 7 + n) % len(LONG_WORDS)] for i in range(n)]
    return base + " " + " ".join(words)
MONTHS = ["Jan.", "Feb.", "Mar.", "Apr.", "May", "June", "July", "Aug.", "Sept.", "Oct.", "Nov.", "Dec."]
SAFE_PARALLEL = ["S. Ct.", "L. Ed. 2d", "F.2d", "F.3d", "A.2d", "N.E.2d", "P.2d", "Cal. Rptr. 3d"]
G = {}


def setup(tier):
    tk.get(("ac", "hs", "ref"))
    G["courts"] = inv.court_strings()
    G["skip"] = {s for s in inv.all_strings() if s.endswith(",") or s.endswith(" at")}
    from eyecite.tokenizers import NOMINATIVE_REPORTER_NAMES

    G["nominative"] = set(NOMINATIVE_REPORTER_NAMES)


# ----------------------------------------------------------------------------------------- helpers


_TOK = {"name": "ac"}


def get(text):
    from eyecite import get_citations

    return call(get_citations, text, tokenizer=tk.get((_TOK["name"],))[_TOK["name"]])


def neutral(text):
    """True if the text yields no special token on its own (vocabulary check)."""
    ac = tk.get(("ac",))["ac"]
    out = call(ac.tokenize, text)
    return not isinstance(out, Raised) and not out[1]


def single_reading(text, lo, hi):
    """None if unambiguous, else the reason the written core is outside the statement's quantifier."""
    rd = readings(text, lo, hi)
    exact = [r for r in rd if (r[1], r[2]) == (lo, hi)]
    if len(exact) > 1:
        return "second-pattern-same-characters"
    if len(exact) == 0:
        return "no-pattern-reads-the-written-core"
    for r in rd:
        if r[1] <= lo and r[2] >= hi and (r[1], r[2]) != (lo, hi):
            return "longer-reading-covers-the-core"
        if r[1] < lo < r[2] or (lo <= r[1] < hi < r[2] and r[0] == "CitationToken"):
            return "overlapping-reading"
    return None


def editions_ok(c, written):
    # every edition the database maps the written string to (exact users if any, else variation users)
    # must be among the candidates eyecite consults (exact candidates if any, else variation candidates)
    cand = c.exact_editions or c.variation_editions
    names = {(e.short_name, e.reporter.short_name, e.reporter.name) for e in cand}
    exp = {(e.name, e.reporter_key, e.reporter_name) for e, _ in inv.users(written)}
    return exp <= names, names, exp


def court_id(written):
    for s, cid in G["courts"]:
        if s == written:
            return cid
    return None


def expect_year(y):
    try:
        v = int(y[:4])
    except ValueError:
        return None
    return v if 1600 <= v <= TODAY + 1 else None


def of_kind(cites, name):
    return [c for c in cites if type(c).__name__ == name]


# ----------------------------------------------------------------------------------------- evaluation


def evaluate(case):
    form = case["form"]
    res = Res()
    _TOK["name"] = case.get("tokenizer", "ac")
    res.label("form:" + form, "tokenizer:" + _TOK["name"])
    try:
        return _evaluate(case, form, res)
    finally:
        _TOK["name"] = "ac"


def _evaluate(case, form, res):
    if form in ("min", "min-short", "min-short-pin"):
        return eval_minimal(case, res)
    if form == "example":
        return eval_example(case, res)
    if form == "court":
        return eval_full(case, res)
    if form == "full":
        return eval_full(case, res)
    if form == "short":
        return eval_short(case, res)
    if form == "supra":
        return eval_supra(case, res)
    if form == "id":
        return eval_id(case, res)
    if form == "law":
        return eval_law(case, res)
    if form == "journal":
        return eval_journal(case, res)
    raise ValueError(form)


def eval_minimal(case, res):
    R = case["reporter"]
    form = case["form"]
    if R in G["skip"]:
        res.label("excluded:comma-or-at-suffixed-string")
        return res
    vol, page = case.get("volume", "12"), case.get("page", "345")
    prose = PROSE[case.get("prose", 0) % len(PROSE)]
    if form == "min":
        core = f"{vol} {R} {page}"
        tail = "."
        exp_kind = inv.expected_class(R)
        span_text = core
    elif form == "min-short":
        core = f"{vol} {R} at {page}"
        tail = "."
        exp_kind = "ShortCaseCitation"
        span_text = core
    else:
        q = str(int(page) + 5)
        core = f"{vol} {R}, at {page}"
        tail = f"-{q} (same)."
        exp_kind = "ShortCaseCitation"
        span_text = core + f"-{q}"
    text = f"{prose}. {core}{tail} Then"
    lo = text.index(core, len(prose))
    why = single_reading(text, lo, lo + len(core))
    if why:
        res.label("excluded:" + why)
        return res
    cites = get(text)
    if isinstance(cites, Raised):
        res.label("raised")
        return res
    res.nontrivial = True
    res.key = (R, form)
    cites = [c for c in cites if type(c).__name__ != "ReferenceCitation"]
    tag = form
    if len(cites) != 1:
        res.v(f"{tag}:count", f"{text!r} -> {[(type(c).__name__, c.matched_text()) for c in cites]}")
        return res
    c = cites[0]
    if type(c).__name__ != exp_kind:
        res.v(f"{tag}:kind", f"{text!r}: {type(c).__name__} instead of {exp_kind}")
        return res
    if c.span() != (lo, lo + len(span_text)):
        res.v(f"{tag}:span", f"{text!r}: span {c.span()} = {text[c.span()[0]:c.span()[1]]!r}, written {span_text!r} at {(lo, lo + len(span_text))}")
    g = {k: v for k, v in c.groups.items() if v is not None}
    if g != {"volume": vol, "reporter": R, "page": page}:
        res.v(f"{tag}:groups", f"{text!r}: groups {g}")
    ok, names, exp = editions_ok(c, R)
    if not ok:
        res.v(f"{tag}:editions", f"{text!r}: candidate editions {sorted(names)} do not include {sorted(exp)}")
    if form == "min-short" and c.metadata.pin_cite != page:
        res.v(f"{tag}:pin", f"{text!r}: pin_cite {c.metadata.pin_cite!r}")
    if form == "min-short-pin":
        if c.metadata.pin_cite != f"{page}-{int(page) + 5}":
            res.v(f"{tag}:pin", f"{text!r}: pin_cite {c.metadata.pin_cite!r}")
        if c.metadata.parenthetical != "same":
            res.v(f"{tag}:parenthetical", f"{text!r}: {c.metadata.parenthetical!r}")
    return res


def eval_example(case, res):
    ex, source = case["example"], case["source"]
    for term, label in ((". Then", "period"), ("; then", "semicolon")):
        text = f"As the panel explained, {ex}{term}"
        lo = text.index(ex)
        hi = lo + len(ex)
        cites = get(text)
        if isinstance(cites, Raised):
            res.label("raised")
            return res
        exp_kind = {"reporters": ("FullCaseCitation", "ShortCaseCitation"), "laws": ("FullLawCitation",), "journals": ("FullJournalCitation",)}[source]
        hits = [c for c in cites if c.span()[0] < hi and c.span()[1] > lo and type(c).__name__ not in ("UnknownCitation", "ReferenceCitation")]
        good = []
        for c in hits:
            if type(c).__name__ not in exp_kind:
                continue
            got = text[c.span()[0]:c.span()[1]].strip()
            want = ex.strip()
            if got == want or got.rstrip(".") == want.rstrip("."):
                good.append(c)
            elif want.startswith(got) and want[len(got):].strip() == (getattr(c.metadata, "pin_cite", None) or ""):
                good.append(c)  # the example's trailing subsection is its pin cite, which the span does not cover
        if len(good) == 1 and len(hits) == 1:
            res.nontrivial = True
            res.key = ("example", ex)
            return res
        last = (text, [(type(c).__name__, c.span(), c.matched_text()) for c in hits])
    res.v(f"example:{source}:not-recognised-as-written", f"{last[0]!r} -> {last[1]}")
    return res


def _render_full(case):
    """Render a full case citation; returns text and the ground truth."""
    t = {}
    prose = prose_for(case)
    signal = ["", "See ", "See also ", "But see "][case.get("signal", 0) % 4]
    pl, df = case["plaintiff"], case["defendant"]
    core = f"{case['volume']} {case['reporter']} {case['page']}"
    s = "" if case.get("at_start") else f"{prose}. {signal}"  # at_start: the citation opens the text (offset 0)
    t["pl_start"] = len(s)
    s += f"{pl} v. {df}, "
    t["core_start"] = len(s)
    s += core
    t["core_end"] = len(s)
    pin = case.get("pin") or ""
    if pin:
        s += ", " + pin
    par2 = case.get("parallel")
    if par2:
        s += ", "
        t["p2_start"] = len(s)
        s += par2
        t["p2_end"] = len(s)
    yr = case.get("year")
    if yr:
        court = case.get("court") or ""
        br = case.get("bracket", False)
        s += f" {'[' if br else '('}{court + ' ' if court else ''}{yr}{']' if br else ')'}"
    paren = case.get("paren") or ""
    if paren and yr:
        s += f" ({paren})"
    t["close"] = len(s)
    k = case.get("term", 0) % 5
    if k == 3 and (pin or par2) and not yr:
        k = 0  # a pin cite must be followed by a documented terminator (punctuation, parenthetical or end of text)
    term = [".", ";", ". " + PROSE[(case.get("prose", 0) + 1) % len(PROSE)] + ".", " ", ""][k]
    s += term
    return s, t, core


def eval_full(case, res):
    R = case["reporter"]
    if R in G["skip"]:
        res.label("excluded:comma-or-at-suffixed-string")
        return res
    text, t, core = _render_full(case)
    if not neutral(f"{case['plaintiff']} {case['defendant']} {PROSE[case.get('prose', 0) % len(PROSE)]} {case.get('paren') or ''}"):
        res.label("excluded:vocabulary-not-neutral")
        return res
    why = single_reading(text, t["core_start"], t["core_end"])
    if why:
        res.label("excluded:" + why)
        return res
    cites = get(text)
    if isinstance(cites, Raised):
        res.label("raised")
        return res
    tag = case["form"]
    cites = [c for c in cites if type(c).__name__ != "ReferenceCitation"]
    n_exp = 2 if case.get("parallel") else 1
    optional = sum(bool(case.get(k)) for k in ("pin", "parallel", "court", "paren", "year"))
    res.nontrivial = optional >= 2 or tag == "court"
    if tag == "court":
        res.key = ("court", case.get("court"))
    if len(cites) != n_exp or any(type(c).__name__ != "FullCaseCitation" for c in cites):
        res.v(f"{tag}:count-or-kind", f"{text!r} -> {[(type(c).__name__, c.matched_text()) for c in cites]}")
        return res
    c = cites[0]
    if c.span() != (t["core_start"], t["core_end"]):
        res.v(f"{tag}:span", f"{text!r}: span {c.span()}, written core at {(t['core_start'], t['core_end'])}")
    g = {k: v for k, v in c.groups.items() if v is not None}
    exp_page = case["page"] if not re.fullmatch("_+", case["page"]) else None
    exp_g = {"volume": case["volume"], "reporter": R}
    if exp_page is not None:
        exp_g["page"] = exp_page
    if g != exp_g:
        res.v(f"{tag}:groups", f"{text!r}: groups {g}, written {exp_g}")
    ok, names, exp = editions_ok(c, R)
    if not ok:
        res.v(f"{tag}:editions", f"{text!r}: candidate editions {sorted(names)} do not include {sorted(exp)}")
    m = c.metadata
    pin = case.get("pin") or None
    yr = case.get("year")
    if yr or pin:
        if m.pin_cite != pin:
            res.v(f"{tag}:pin", f"{text!r}: pin_cite {m.pin_cite!r}, written {pin!r}")
    if yr:
        if m.year != yr[:4]:
            res.v(f"{tag}:year-text", f"{text!r}: metadata.year {m.year!r}, written {yr!r}")
        if c.year != expect_year(yr):
            res.v(f"{tag}:year-number", f"{text!r}: year {c.year!r}, expected {expect_year(yr)!r}")
        court = case.get("court")
        if court:
            cid = court_id(court)
            if m.court != cid:
                res.v(f"{tag}:court", f"{text!r}: court {m.court!r}, courts-db id of {court!r} is {cid!r}")
        paren = case.get("paren") or None
        if m.parenthetical != paren:
            res.v(f"{tag}:parenthetical", f"{text!r}: {m.parenthetical!r}, written {paren!r}")
    if m.defendant != case["defendant"]:
        res.v(f"{tag}:defendant", f"{text!r}: defendant {m.defendant!r}, written {case['defendant']!r}")
    if not m.plaintiff or not case["plaintiff"].endswith(m.plaintiff):
        res.v(f"{tag}:plaintiff", f"{text!r}: plaintiff {m.plaintiff!r} is not a suffix of {case['plaintiff']!r}")
    else:
        f0, f1 = c.full_span()
        exp0 = t["pl_start"] + len(case["plaintiff"]) - len(m.plaintiff)
        if f0 != exp0:
            res.v(f"{tag}:full-span-start", f"{text!r}: full span starts at {f0}, extracted plaintiff starts at {exp0}")
        if yr and not (t["close"] <= f1 and text[t["close"]:f1].strip() == ""):
            res.v(f"{tag}:full-span-end", f"{text!r}: full span ends at {f1}, closing parenthesis at {t['close']}")
        if not yr and not pin and not case.get("parallel") and f1 < t["core_end"]:
            res.v(f"{tag}:full-span-end", f"{text!r}: full span ends at {f1} before the core end {t['core_end']}")
    if case.get("parallel"):
        d = cites[1]
        if d.span() != (t["p2_start"], t["p2_end"]):
            res.v(f"{tag}:parallel-span", f"{text!r}: second span {d.span()}, written {(t['p2_start'], t['p2_end'])}")
        if d.metadata.defendant != case["defendant"] or (yr and d.metadata.year != yr[:4]):
            res.v(f"{tag}:parallel-metadata", f"{text!r}: second citation defendant {d.metadata.defendant!r} year {d.metadata.year!r}")
        if yr and (m.extra or "").strip(", ") != case["parallel"]:
            res.v(f"{tag}:extra", f"{text!r}: extra {m.extra!r}, written parallel cite {case['parallel']!r}")
    return res


def eval_short(case, res):
    R = case["reporter"]
    if R in G["skip"]:
        res.label("excluded:comma-or-at-suffixed-string")
        return res
    ante = case.get("antecedent") or ""
    prose = prose_for(case)
    page = case["page"]
    core = f"{case['volume']} {R}{',' if case.get('comma') else ''} at {page}"
    pin_tail = case.get("pin_tail") or ""  # e.g. "-350" or ", 360"
    paren = case.get("paren") or ""
    s = "" if case.get("at_start") else f"{prose}. "
    a0 = len(s)
    if ante:
        s += f"{ante}, "
    c0 = len(s)
    s += core
    c1 = len(s)
    s += pin_tail
    p1 = len(s)
    if paren:
        s += f" ({paren})"
    s += [".", ";", ". Then.", ""][case.get("term", 0) % 4]
    if not neutral(f"{ante} {prose} {paren}"):
        res.label("excluded:vocabulary-not-neutral")
        return res
    why = single_reading(s, c0, c1)
    if why:
        res.label("excluded:" + why)
        return res
    cites = get(s)
    if isinstance(cites, Raised):
        res.label("raised")
        return res
    cites = [c for c in cites if type(c).__name__ != "ReferenceCitation"]
    res.nontrivial = bool(ante) + bool(pin_tail) + bool(paren) >= 2
    if len(cites) != 1 or type(cites[0]).__name__ != "ShortCaseCitation":
        res.v("short:count-or-kind", f"{s!r} -> {[(type(c).__name__, c.matched_text()) for c in cites]}")
        return res
    c = cites[0]
    if c.span() != (c0, p1):
        res.v("short:span", f"{s!r}: span {c.span()} = {s[c.span()[0]:c.span()[1]]!r}, written {s[c0:p1]!r}")
    g = {k: v for k, v in c.groups.items() if v is not None}
    if g != {"volume": case["volume"], "reporter": R, "page": page}:
        res.v("short:groups", f"{s!r}: groups {g}")
    exp_pin = (page + pin_tail)
    if c.metadata.pin_cite != exp_pin:
        res.v("short:pin", f"{s!r}: pin_cite {c.metadata.pin_cite!r}, written {exp_pin!r}")
    if (c.metadata.antecedent_guess or None) != (ante or None) and ante:
        res.v("short:antecedent", f"{s!r}: antecedent {c.metadata.antecedent_guess!r}, written {ante!r}")
    if c.metadata.parenthetical != (paren or None):
        res.v("short:parenthetical", f"{s!r}: {c.metadata.parenthetical!r}, written {paren!r}")
    if ante and c.full_span()[0] != a0:
        res.v("short:full-span-start", f"{s!r}: full span starts at {c.full_span()[0]}, antecedent at {a0}")
    ok, names, exp = editions_ok(c, R)
    if not ok:
        res.v("short:editions", f"{s!r}: candidate editions {sorted(names)} do not include {sorted(exp)}")
    return res


def eval_supra(case, res):
    ante = case["antecedent"]
    prose = prose_for(case)
    vol = case.get("volume") or ""
    pin = case.get("pin") or ""  # e.g. "at 240" / "at 240-41"
    s = "" if case.get("at_start") else f"{prose}. "
    a0 = len(s)
    s += f"{ante}, "
    if vol:
        s += vol + " "
    t0 = len(s)
    s += "supra"
    sep = case.get("sep", 0) % 3
    if pin:
        s += [", ", " ", ", "][sep] + pin
        p1 = len(s)
    else:
        p1 = None
    s += [".", ";", ". Then."][case.get("term", 0) % 3]
    if not neutral(f"{ante} {prose}"):
        res.label("excluded:vocabulary-not-neutral")
        return res
    cites = get(s)
    if isinstance(cites, Raised):
        res.label("raised")
        return res
    res.nontrivial = bool(vol) + bool(pin) >= 1
    if len(cites) != 1 or type(cites[0]).__name__ != "SupraCitation":
        res.v("supra:count-or-kind", f"{s!r} -> {[(type(c).__name__, c.matched_text()) for c in cites]}")
        return res
    c = cites[0]
    s0, s1 = c.span()
    if s0 != t0 or (pin and s1 != p1) or (not pin and not (t0 + 5 <= s1 <= t0 + 6)):
        res.v("supra:span", f"{s!r}: span {c.span()} = {s[s0:s1]!r}")
    if c.metadata.antecedent_guess != ante:
        res.v("supra:antecedent", f"{s!r}: antecedent {c.metadata.antecedent_guess!r}, written {ante!r}")
    if c.metadata.pin_cite != (pin or None):
        res.v("supra:pin", f"{s!r}: pin_cite {c.metadata.pin_cite!r}, written {pin!r}")
    if (c.metadata.volume or "") != vol:
        res.v("supra:volume", f"{s!r}: volume {c.metadata.volume!r}, written {vol!r}")
    if c.full_span()[0] != a0:
        res.v("supra:full-span-start", f"{s!r}: full span starts at {c.full_span()[0]}, antecedent at {a0}")
    return res


def eval_id(case, res):
    prose = PROSE[case.get("prose", 0) % len(PROSE)]
    word = ["Id.", "id.", "Ibid.", "Id.,"][case.get("word", 0) % 4]
    pin = case.get("pin") or ""
    paren = case.get("paren") or ""
    s = f"{prose}. "
    t0 = len(s)
    s += word
    if pin:
        s += " " + pin
    p1 = len(s)
    if paren:
        s += f" ({paren})"
    s += [" ", " Then.", " then"][case.get("term", 0) % 3] if not (pin or paren) else [".", "; then", ". Then"][case.get("term", 0) % 3]
    if paren and not neutral(paren):
        res.label("excluded:vocabulary-not-neutral")
        return res
    cites = get(s)
    if isinstance(cites, Raised):
        res.label("raised")
        return res
    res.nontrivial = bool(pin) or bool(paren)
    if len(cites) != 1 or type(cites[0]).__name__ != "IdCitation":
        res.v("id:count-or-kind", f"{s!r} -> {[(type(c).__name__, c.matched_text()) for c in cites]}")
        return res
    c = cites[0]
    if c.span() != (t0, p1):
        res.v("id:span", f"{s!r}: span {c.span()} = {s[c.span()[0]:c.span()[1]]!r}, written {s[t0:p1]!r}")
    if c.metadata.pin_cite != (pin or None):
        res.v("id:pin", f"{s!r}: pin_cite {c.metadata.pin_cite!r}, written {pin!r}")
    if pin and c.metadata.parenthetical != (paren or None):
        res.v("id:parenthetical", f"{s!r}: {c.metadata.parenthetical!r}, written {paren!r}")
    return res


def eval_law(case, res):
    ex = case["example"]
    prose = PROSE[case.get("prose", 0) % len(PROSE)]
    pub, month, day, year = case.get("publisher") or "", case.get("month") or "", case.get("day") or "", case.get("year") or ""
    inner = " ".join(x for x in (pub, (month + " " + day + ",") if month and day else month, year) if x)
    paren = case.get("paren") or ""
    s = f"{prose}. "
    c0 = len(s)
    s += ex
    c1 = len(s)
    sub = case.get("subsection") or ""
    s += sub
    if inner:
        s += f" ({inner})"
    if paren:
        s += f" ({paren})"
    close = len(s)
    s += [".", ";", ". Then."][case.get("term", 0) % 3]
    cites = get(s)
    if isinstance(cites, Raised):
        res.label("raised")
        return res
    # ground truth for "how is the written statute read": the pattern-level readings (Python re on the pattern
    # strings, independent of the tokenizers). Exactly one citation pattern must read the text, starting at the
    # written example; otherwise the case is outside the statement's quantifier and counted.
    rd = sorted(r for r in readings(s, c0, c1) if r[0] == "CitationToken")
    spans = {(r[1], r[2]) for r in rd}
    if len(spans) != 1 or next(iter(spans))[0] != c0:
        res.label("excluded:example-not-read-as-one-statute")
        return res
    exp_span = next(iter(spans))
    hits = [c for c in cites if type(c).__name__ == "FullLawCitation"]
    res.nontrivial = bool(inner) + bool(paren) + bool(sub) >= 1
    others = [c for c in cites if type(c).__name__ not in ("FullLawCitation", "UnknownCitation", "ReferenceCitation")]
    if len(hits) != 1 or others:
        res.v("law:count-or-kind", f"{s!r} -> {[(type(c).__name__, c.matched_text()) for c in cites]}")
        return res
    c = hits[0]
    if c.span() != exp_span:
        res.v("law:span", f"{s!r}: span {c.span()}, the pattern reads {exp_span}")
        return res
    if exp_span[1] != c1:  # the example's own template absorbs the following character(s)
        res.label("excluded:example-read-with-different-extent")
        res.nontrivial = False
        return res
    m = c.metadata
    if inner:
        for field, want in (("publisher", pub), ("month", month), ("day", day if month else ""), ("year", year)):
            got = getattr(m, field)
            if (got or "") != want:
                res.v(f"law:{field}", f"{s!r}: {field} {got!r}, written {want!r}")
        if year and c.year != expect_year(year):
            res.v("law:year-number", f"{s!r}: year {c.year!r}")
    if sub and (m.pin_cite or "") != sub.strip():
        res.v("law:subsection-pin", f"{s!r}: pin_cite {m.pin_cite!r}, written subsection {sub!r}")
    if (inner or not inner) and paren and m.parenthetical != paren:
        res.v("law:parenthetical", f"{s!r}: {m.parenthetical!r}, written {paren!r}")
    f0, f1 = c.full_span()
    if (inner or paren) and not (close <= f1 and s[close:f1].strip() == ""):
        res.v("law:full-span-end", f"{s!r}: full span ends at {f1}, closing parenthesis at {close}")
    return res


def eval_journal(case, res):
    R = case["reporter"]
    prose = PROSE[case.get("prose", 0) % len(PROSE)]
    core = f"{case['volume']} {R} {case['page']}"
    pin, year, paren = case.get("pin") or "", case.get("year") or "", case.get("paren") or ""
    s = f"{prose}. "
    c0 = len(s)
    s += core
    c1 = len(s)
    if pin:
        s += ", " + pin
    if year:
        s += f" ({year})"
    if paren:
        s += f" ({paren})"
    close = len(s)
    s += [".", ";", ". Then."][case.get("term", 0) % 3]
    why = single_reading(s, c0, c1)
    if why:
        res.label("excluded:" + why)
        return res
    if paren and not neutral(paren):
        res.label("excluded:vocabulary-not-neutral")
        return res
    cites = get(s)
    if isinstance(cites, Raised):
        res.label("raised")
        return res
    res.nontrivial = bool(pin) + bool(year) + bool(paren) >= 2
    if len(cites) != 1 or type(cites[0]).__name__ != inv.expected_class(R):
        res.v("journal:count-or-kind", f"{s!r} -> {[(type(c).__name__, c.matched_text()) for c in cites]}")
        return res
    c = cites[0]
    if c.span() != (c0, c1):
        res.v("journal:span", f"{s!r}: span {c.span()}")
    m = c.metadata
    if type(c).__name__ == "FullJournalCitation":
        if m.pin_cite != (pin or None):
            res.v("journal:pin", f"{s!r}: pin_cite {m.pin_cite!r}, written {pin!r}")
        if year and (m.year != year[:4] or c.year != expect_year(year)):
            res.v("journal:year", f"{s!r}: year {m.year!r}/{c.year!r}, written {year!r}")
        if m.parenthetical != (paren or None):
            res.v("journal:parenthetical", f"{s!r}: {m.parenthetical!r}, written {paren!r}")
        if (year or paren) and not (close <= c.full_span()[1] and s[close:c.full_span()[1]].strip() == ""):
            res.v("journal:full-span-end", f"{s!r}: full span ends at {c.full_span()[1]}, closing parenthesis at {close}")
    return res


# ----------------------------------------------------------------------------------------- generators

_word = st.lists(st.sampled_from(SYL), min_size=2, max_size=3).map(lambda x: "".join(x).capitalize())
_party = st.lists(_word, min_size=1, max_size=4).map(" ".join)
_year = st.one_of(st.integers(1700, TODAY).map(str), st.sampled_from(["1599", "1600", "1601", str(TODAY), str(TODAY + 1), str(TODAY + 2), "1993-94", "2005-06"]))
_paren = st.one_of(
    st.just(""), st.just(""),
    st.sampled_from(["same", "en banc", "per curiam", "holding otherwise", "discussing the rule (Kalomi, J., concurring)",
                     "quoting the record (emphasis added) at length"]),
    st.lists(_word, min_size=1, max_size=3).map(lambda w: "holding that " + " ".join(w).lower() + " applies"),
)


def _volume_for(R):
    if R in G.get("nominative", ()) or any(u.reporter_key in G.get("nominative", ()) for u, _ in inv.users(R)):
        return st.integers(1, 99).map(str)
    return st.integers(1, 999).map(str)


@st.composite
def _pin(draw, page):
    try:
        p = int(page)
    except ValueError:
        p = 10
    a, b = p + draw(st.integers(0, 9)), p + draw(st.integers(10, 20))
    return draw(st.sampled_from(["", "", f"{a}", f"{a}-{b}", f"{a}, {b}", f"{a}, n. 4", f"at {a}", f"*{a}", f"¶ {a}", f"{a}:{b}", f"pp. {a}-{b}", f"{a} & n. 4"]))


@st.composite
def _full_case(draw, court_only=False):
    R = draw(st.sampled_from(inv.case_plain_strings()))
    vol = draw(_volume_for(R))
    page = draw(st.one_of(st.integers(1, 9999).map(str), st.integers(1, 9999).map(str), st.sampled_from(["___", "_", "xiv", "lxiv"])))
    case = {"form": "full", "reporter": R, "volume": vol, "page": page, "plaintiff": draw(_party), "defendant": draw(_party),
            "prose": draw(st.integers(0, 4)), "signal": draw(st.integers(0, 3)), "term": draw(st.integers(0, 4)),
            "long": draw(st.sampled_from([0, 0, 0, 0, 45, 70, 120])), "at_start": draw(st.integers(0, 5)) == 0}
    case["pin"] = draw(_pin(page))
    if "&" in case["pin"]:
        case["pin"] = case["pin"].replace(" & n. 4", "")
    if draw(st.integers(0, 9)) < 8:
        case["year"] = draw(_year)
        if draw(st.booleans()):
            case["court"] = draw(st.sampled_from(G["courts"]))[0]
        case["paren"] = draw(_paren)
        case["bracket"] = draw(st.integers(0, 9)) == 0
    if draw(st.integers(0, 4)) == 0 and case.get("year"):
        case["parallel"] = f"{draw(st.integers(1, 999))} {draw(st.sampled_from(SAFE_PARALLEL))} {draw(st.integers(1, 9999))}"
    return case


@st.composite
def _short(draw):
    R = draw(st.sampled_from(inv.case_plain_strings()))
    page = str(draw(st.integers(1, 9999)))
    tail = draw(st.sampled_from(["", "", f"-{int(page) + 3}", f", {int(page) + 7}", f" n. 4"]))
    if tail == " n. 4":
        tail = ""
    return {"form": "short", "reporter": R, "volume": draw(_volume_for(R)), "page": page, "comma": draw(st.booleans()), "pin_tail": tail,
            "antecedent": draw(st.one_of(st.just(""), _word, _word, _word.map(lambda w: w + "."), st.sampled_from(["Inc.", "Co.", "Bros.", "Corp.", "Mfg."]))), "paren": draw(_paren), "prose": draw(st.integers(0, 4)), "term": draw(st.integers(0, 3)),
            "long": draw(st.sampled_from([0, 0, 0, 45, 70, 120])), "at_start": draw(st.integers(0, 5)) == 0}


@st.composite
def _supra(draw):
    n = draw(st.integers(1, 999))
    return {"form": "supra", "antecedent": draw(_word), "volume": draw(st.sampled_from(["", "", "", str(draw(st.integers(1, 999)))])),
            "pin": draw(st.sampled_from(["", f"at {n}", f"at {n}-{n + 5}", f"at {n}, {n + 9}", f"{n}"])), "sep": draw(st.integers(0, 2)),
            "prose": draw(st.integers(0, 4)), "term": draw(st.integers(0, 2)), "long": draw(st.sampled_from([0, 0, 0, 45, 70, 120])), "at_start": draw(st.integers(0, 5)) == 0}


@st.composite
def _id(draw):
    n = draw(st.integers(1, 999))
    return {"form": "id", "word": draw(st.integers(0, 3)), "pin": draw(st.sampled_from(["", f"at {n}", f"at {n}-{n + 5}", f"at {n}, {n + 9}", f"at *{n}", f"at {n} n. 4"]).filter(lambda p: " n. " not in p)),
            "paren": draw(_paren), "prose": draw(st.integers(0, 4)), "term": draw(st.integers(0, 2))}


@st.composite
def _law(draw):
    exs = [e for e, s in inv.examples() if s == "laws"]
    case = {"form": "law", "example": draw(st.sampled_from(exs)), "prose": draw(st.integers(0, 4)), "term": draw(st.integers(0, 2)), "paren": draw(_paren),
            "subsection": draw(st.sampled_from(["", "", "(a)", "(a)(2)", "(1)", "(b)(1)(A)", " et seq."])), "tokenizer": draw(st.sampled_from(["ac", "ac", "hs", "ref"]))}
    k = draw(st.integers(0, 5))
    if k >= 1:
        case["year"] = str(draw(st.integers(1800, TODAY)))
    if k >= 2:
        case["publisher"] = draw(st.sampled_from(["West", "Lexis", "McKinney", "Consol.", "West Supp.", "Deering"]))
    if k >= 4:
        case["month"] = draw(st.sampled_from(MONTHS))
        case["day"] = str(draw(st.integers(1, 28)))
    return case


@st.composite
def _journal(draw):
    js = [s for s in inv.plain_strings() if inv.expected_class(s) == "FullJournalCitation"]
    R = draw(st.sampled_from(js))
    page = str(draw(st.integers(1, 9999)))
    return {"form": "journal", "reporter": R, "volume": str(draw(st.integers(1, 999))), "page": page, "pin": draw(_pin(page)).replace(" & n. 4", ""),
            "year": draw(st.one_of(st.just(""), _year)), "paren": draw(_paren), "prose": draw(st.integers(0, 4)), "term": draw(st.integers(0, 2))}


def _minimal_items():
    items = []
    for R in inv.plain_strings():
        items.append({"form": "min", "reporter": R})
    for R in inv.case_plain_strings():
        items.append({"form": "min-short", "reporter": R})
        items.append({"form": "min-short-pin", "reporter": R})
    return items


def _example_items():
    return [{"form": "example", "example": e, "source": s, "tokenizer": t} for e, s in inv.examples() for t in ("ac", "hs", "ref")]


def _court_items():
    out = []
    for i, (s, cid) in enumerate(G["courts"]):
        out.append({"form": "court", "reporter": ["F.2d", "F.3d", "A.2d", "N.E.2d"][i % 4], "volume": str(10 + i % 900), "page": str(1 + i % 5000),
                    "plaintiff": "Kalomi", "defendant": "Rentov Bar", "year": str(1900 + i % 100), "court": s, "paren": "", "pin": "", "prose": i, "signal": i, "term": i % 3})
    return out


def phases(tier):
    n = 40000 if tier == "quick" else 600000
    mix = lambda: st.one_of(_full_case(), _full_case(), _full_case(), _short(), _supra(), _id(), _law(), _journal())
    return [
        Phase("minimal-forms", "enum", items=_minimal_items, exhaustive=True),
        Phase("db-examples", "enum", items=_example_items, exhaustive=True),
        Phase("court-strings", "enum", items=_court_items, exhaustive=True),
        Phase("sampled", "gen", strategy=mix, n=n),
    ]
