"""C13 - the Aho-Corasick pre-filter is lossless."""
import re
import zlib

from hypothesis import strategies as st

from vf import tk
from vf.core import Phase, Raised, Res, call
from vf.gen import legal, regexgen

ID = "C13"
RULE = (
    "(a) inclusion, per extractor with filter strings: strings matched by its pattern (one derivation per alternative "
    "of every alternation and per optional part, + Hypothesis from_regex draws, + upper/title-case and re.I-equivalent "
    "variants for case-insensitive extractors), each placed in generated context; oracle: pattern.search(s) implies "
    "extractor in get_extractors(s). (b) differential: generated documents x extractor lists (full list, random "
    "sub-lists seeded with the extractors relevant to the text, sub-lists with a custom extractor); oracle: "
    "AhocorasickTokenizer(extractors=L).tokenize(t) equals Tokenizer(extractors=L).tokenize(t) token by token "
    "(type, offsets, text, groups, editions in order, short) and index by index; plus one differential per string derived from the pattern of one extractor per template shape (~9,000 strings, in a "
    "digit-free context), plus an enumerated family of long texts "
    "(1K ... 128K characters of filler with and without blanks, then a token straddling a power-of-two / round offset). Non-trivial: (a) a string that "
    "matches its pattern; (b) the filter skipped >= 1 extractor that has strings and kept >= 1; distinct = distinct case"
)
ASSUMPTIONS = [
    "regular-language inclusion is searched with generated members of each pattern's language, not proved",
    "sub-lists are subsets of eyecite.tokenizers.EXTRACTORS plus small custom extractors (the documented custom-tokenizer usage)",
]
G = {}


def setup(tier):
    import ahocorasick
    from eyecite.tokenizers import EXTRACTORS

    G["EXTRACTORS"] = list(EXTRACTORS)
    tk.get(("ac",))
    # harness-side index (independent of the code under test) of which extractors are relevant to a text
    auto = ahocorasick.Automaton()
    by = {}
    for i, e in enumerate(EXTRACTORS):
        for s in e.strings:
            by.setdefault(s.lower(), []).append(i)
    for s, idxs in by.items():
        auto.add_word(s, idxs)
    auto.make_automaton()
    G["auto"] = auto
    G["nostrings"] = [i for i, e in enumerate(EXTRACTORS) if not e.strings]
    G["ci"] = regexgen.ci_equivalents()


# ---------------------------------------------------------------- (a) inclusion

# letter-free contexts: a context must not itself contain a filter string of the extractor under test
CONTEXTS = [("", ""), (" ", " "), ("(", ")"), ("1. ", "; 2"), ("\n", "\n"), ("“", "”")]


def _variants(e, s):
    yield s
    if e.flags & re.I:
        yield s.upper()
        yield s.title()
        yield s.swapcase()
        # substitute the non-ASCII characters python's re.I equates with ASCII letters
        for letter, eqs in G["ci"].items():
            for eq in eqs:
                if letter in s.lower():
                    i = s.lower().index(letter)
                    yield s[:i] + eq + s[i + 1:]


def eval_inclusion(case):
    res = Res()
    ex = G["EXTRACTORS"]
    ac = tk.get(("ac",))["ac"]
    if "idx" in case:
        i = case["idx"]
        if i >= len(ex):
            return res
        e = ex[i]
        cands = list(regexgen.alternatives(e.regex, e.flags, limit=case.get("limit", 400)))
        n_draw = case.get("draws", 0)
        if n_draw:
            cands += _from_regex(e, n_draw, case.get("seed", 1) * 7919 + i)
    else:  # replay form: explicit string
        e = next((x for x in ex if x.regex == case["regex"]), None)
        if e is None:
            return res
        cands = [case["text"]]
    matched = 0
    for k, s0 in enumerate(cands):
        for s1 in _variants(e, s0):
            ctxs = [CONTEXTS[(k + len(s1)) % len(CONTEXTS)], CONTEXTS[(k + len(s1) + 1) % len(CONTEXTS)]] if "idx" in case else [("", "")]
            for pre, post in ctxs:
                s = pre + s1 + post
                if not e.compiled_regex.search(s):
                    res.label("generator-miss")
                    continue
                matched += 1
                got = call(ac.get_extractors, s)
                if isinstance(got, Raised):
                    res.label("raised")
                    continue
                if not any(x is e for x in got):
                    kind_ = e.constructor.__self__.__name__
                    nonascii = "nonascii" if not s.isascii() else "ascii"
                    res.v(f"filter-miss:{kind_}:{nonascii}", f"pattern of {kind_} extractor (strings {e.strings[:4]}) matches {s!r} but get_extractors skips it",
                          case={"kind": "incl", "regex": e.regex, "text": s})
    res.label(f"matched-strings:{min(matched, 50) // 10 * 10}+")
    res.nontrivial = matched > 0
    res.key = ("incl", case.get("idx"), case.get("regex"), case.get("text"))
    G_counts["strings"] = G_counts.get("strings", 0) + matched
    return res


G_counts = {}


def _from_regex(e, n, seed):
    import hypothesis
    from hypothesis import HealthCheck, Phase as HP, given, settings

    out = []
    strat = st.from_regex(re.compile(e.regex, e.flags))

    @hypothesis.seed(seed)
    @settings(max_examples=n, database=None, deadline=None, suppress_health_check=list(HealthCheck), phases=[HP.generate])
    @given(strat)
    def t(s):
        if len(s) < 400:
            out.append(s)

    try:
        t()
    except Exception:
        pass
    return out


# ---------------------------------------------------------------- (b) differential


def _tokkey(t):
    if isinstance(t, str):
        return t
    return (
        type(t).__name__, t.start, t.end, str(t), tuple(sorted((k, str(v)) for k, v in t.groups.items())),
        tuple((e.short_name, e.reporter.short_name) for e in getattr(t, "exact_editions", ())),
        tuple((e.short_name, e.reporter.short_name) for e in getattr(t, "variation_editions", ())),
        getattr(t, "short", None),
    )


def _custom_extractors(n):
    from eyecite.models import TokenExtractor, Token
    from eyecite.regexes import space_boundaries_re

    specs = [
        (space_boundaries_re(r"held|holding"), 0, ["held", "holding"]),
        (space_boundaries_re(r"court"), re.I, ["Court"]),  # mixed-case filter string of a case-insensitive extractor
        (r"(\bnote\b)", 0, []),
        (space_boundaries_re(r"id\.,?|ibid\."), re.I, ["id.", "ibid."]),
    ]
    out = []
    for k in range(len(specs)):
        if n >> k & 1:
            rx, fl, strs = specs[k]
            out.append(TokenExtractor(rx, Token.from_match, flags=fl, strings=list(strs)))
    return out


def eval_diff(case):
    from eyecite.tokenizers import AhocorasickTokenizer, Tokenizer

    res = Res()
    if case.get("kind") == "difflong":
        # long text described compactly: `unit` repeated up to offset at - j, then the token, then a short tail
        unit, at, j, tok = case["unit"], case["at"], case["j"], case["tok"]
        if not (unit and 0 <= j <= len(tok) + 1 and at - j - 1 > 0):
            res.label("out-of-domain")
            return res
        n = at - j - 1
        text = (unit * (n // len(unit) + 1))[:n] + "\n" + tok + "\nthe end"
        res.label("long-text")
    else:
        text = case["text"]
    ex = G["EXTRACTORS"]
    if case.get("full"):
        L = list(ex)
        res.label("list:full")
    else:
        idxs = [i % len(ex) for i in case.get("idx", [])]
        salt = case.get("salt", 0)
        relevant = set()
        for _, hits in G["auto"].iter(text.lower()):
            relevant.update(hits)
        relevant.update(G["nostrings"])
        keep = [i for i in sorted(relevant) if zlib.crc32(f"{salt}:{i}".encode()) % 10 < case.get("keep", 7)]
        L = [ex[i] for i in dict.fromkeys(idxs + keep)]
        if salt % 2:
            L = L[::-1]
        L += _custom_extractors(case.get("custom", 0))
        res.label("list:sub", "list-empty" if not L else "list-nonempty")
    ref = call(lambda: Tokenizer(extractors=list(L)).tokenize(text))
    ac_t = call(AhocorasickTokenizer, extractors=list(L))
    if isinstance(ref, Raised):
        res.label("ref-raised")
        return res
    if isinstance(ac_t, Raised):
        res.v("construct-raises:" + ac_t.bucket(), repr(ac_t))
        return res
    got = call(ac_t.tokenize, text)
    if isinstance(got, Raised):
        res.v("tokenize-raises:" + got.bucket(), repr(got))
        return res
    a = [_tokkey(t) for t in ref[0]]
    b = [_tokkey(t) for t in got[0]]
    if a != b:
        i = next((i for i, (x, y) in enumerate(zip(a, b)) if x != y), min(len(a), len(b)))
        x = a[i] if i < len(a) else None
        y = b[i] if i < len(b) else None
        if isinstance(x, tuple) and isinstance(y, tuple) and x[:4] == y[:4] and x[7] == y[7] and x[4] == y[4] and (sorted(x[5]), sorted(x[6])) == (sorted(y[5]), sorted(y[6])):
            why = "editions-order"
        elif isinstance(x, tuple) and isinstance(y, tuple) and x[1:3] == y[1:3]:
            why = "same-span-different-token"
        elif isinstance(x, tuple) and not isinstance(y, tuple):
            why = "token-missing"
        elif isinstance(y, tuple) and not isinstance(x, tuple):
            why = "token-extra"
        else:
            why = "other"
        res.v(f"stream-differs:{why}", f"at token {i}: reference {x!r} vs filtered {y!r}" + (f" [long text: unit {case['unit']!r} up to offset {case['at'] - case['j'] - 1}, then {case['tok']!r}]" if case.get("kind") == "difflong" else ""))
    elif [(i, _tokkey(t)) for i, t in ref[1]] != [(i, _tokkey(t)) for i, t in got[1]]:
        res.v("index-list-differs", f"{ref[1]!r} vs {got[1]!r}")
    sel = call(ac_t.get_extractors, text)
    if not isinstance(sel, Raised):
        sel_ids = {id(e) for e in sel}
        skipped = [e for e in L if e.strings and id(e) not in sel_ids]
        kept = [e for e in L if e.strings and id(e) in sel_ids]
        if skipped and kept:
            res.nontrivial = True
            res.label("filter-skipped-and-kept")
        if case.get("kind") == "difflong":
            res.nontrivial = True
    return res


def evaluate(case):
    if case.get("kind") == "incl":
        return eval_inclusion(case)
    return eval_diff(case)


def _sub_cases():
    return st.builds(
        lambda t, idx, salt, keep, custom: {"kind": "diff", "text": t, "idx": idx, "salt": salt, "keep": keep, "custom": custom},
        legal.document(hostile=False, multibyte=True),
        st.lists(st.integers(0, 7000), max_size=60),
        st.integers(0, 1000),
        st.sampled_from([0, 5, 7, 9, 10]),
        st.sampled_from([0, 0, 1, 2, 4, 8, 15]),
    )


def _long_items(tier):
    """Tokens straddling offsets at which a block-wise scan would cut the text (powers of two, round numbers), after
    filler with and without blanks (a 64K stretch without any blank is what a table of authorities looks like)."""
    ats = [2 ** k for k in range(10, 18)] + [100000]
    if tier != "quick":
        ats += [3 * 65536, 2 ** 18, 2 ** 20]
    out = []
    for unit in ["x\n", "word ", "ab\tcd\n", "\u00e9\n", "\u0130x\n", "xy\r\n", "x\u2028"]:
        for tok in ["supra", "Id.", "See", "ibid.", "1 U.S. 1", "In re", "\u00a7 5"]:
            for at in ats:
                for j in sorted({0, 1, 2, len(tok) - 1, len(tok)}):
                    out.append({"kind": "difflong", "unit": unit, "tok": tok, "at": at, "j": j, "keep": 10, "salt": 0})
    return out


def _shape_items(tier):
    """One differential per string derived from the pattern of one extractor per template shape (all alternatives,
    optional parts, repeatable parts once more than the minimum), in a digit-free, citation-free context; the
    extractor list is the representative extractor plus everything the harness index relates to the text."""
    out = []
    seen = set()
    for i, e in regexgen.shape_representatives(G["EXTRACTORS"]):
        for cand in regexgen.alternatives(e.regex, e.flags, limit=1500):
            m = e.compiled_regex.search(cand)
            if not m:
                continue
            core = m.group(1)
            if core in seen or not core.strip():
                continue
            seen.add(core)
            out.append({"kind": "diff", "text": f"Compare {core}; and so on", "idx": [i], "salt": 0, "keep": 10, "custom": 0})
    return out


def _full_cases():
    return legal.document(hostile=True).map(lambda t: {"kind": "diff", "text": t, "full": True})


def phases(tier):
    n_ex = len(G["EXTRACTORS"])
    draws = 3 if tier == "quick" else 60
    n_sub, n_full = (4000, 1200) if tier == "quick" else (60000, 20000)
    seed_holder = {}

    def items():
        import os
        seed = int(os.environ.get("VERIF_SEED", "1") or 1)
        return [{"kind": "incl", "idx": i, "draws": draws, "seed": seed} for i in range(n_ex) if G["EXTRACTORS"][i].strings]

    return [
        Phase("inclusion", "enum", items=items, exhaustive=False, chunk=60),
        Phase("diff-sublists", "gen", strategy=_sub_cases, n=n_sub),
        Phase("diff-full", "gen", strategy=_full_cases, n=n_full),
        Phase("diff-pattern-shapes", "enum", items=lambda: _shape_items(tier), exhaustive=True, distinct=True, chunk=40),
        Phase("diff-long-texts", "enum", items=lambda: _long_items(tier), exhaustive=True, distinct=True, chunk=8),
    ]
