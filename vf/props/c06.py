"""C06 - resolution output is a faithful, ordered partition of the resolved citations."""
from vf import resolver_engine as E
from vf.core import Raised, Res
from vf.props import _resolver_common as RC

ID = "C06"
RULE = (
    "every sequence up to length L (quick 4, thorough 5; exhaustive) over a 21-letter alphabet of real citation objects "
    "(full A / A-variant / B same reporter+volume / C shared party / placeholder page, law, journal, journal with "
    "placeholder page, short by-antecedent/ambiguous/unique/foreign, supra unique/ambiguous/unknown, reference, id "
    "none/valid/far/non-numeric pin, unknown), plus citation lists extracted from generated documents; oracle: the "
    "output is a partition into input-ordered sub-sequences of input objects, each starting with a full citation, "
    "full citations grouped exactly by an independent equality, no unknown citation. Non-trivial: >= 1 full and >= 1 "
    "non-full citation in the list; distinct = distinct sequence / text"
)
ASSUMPTIONS = ["corrected_reporter() is trusted for the independent equality (checked by C16)", "default resolvers only"]
setup = RC.setup


def evaluate(case):
    res = Res()
    cits = RC.cits_for(case)
    if cits is None:
        res.label("skipped")
        return res
    res.nontrivial = RC.base_labels(res, case, cits)
    out = E.resolve(cits)
    if isinstance(out, Raised):
        res.label("raised")
        return res
    E.check_c06(res, cits, out)
    return res


def phases(tier):
    return RC.phases(tier)
