"""C06 - resolution output is a faithful, ordered partition of the resolved citations."""
from vf import resolver_engine as E
from vf.core import Raised, Res
from vf.props import _resolver_common as RC

ID = "C06"
RULE = (
    "every sequence up to length L (quick 4, thorough 5; exhaustive) over a 32-letter alphabet of real citation objects "
    "(full A / A-variant / B same reporter+volume / C shared party / placeholder page, law, journal, journal with "
    "placeholder page, short by-antecedent/ambiguous/unique/foreign, supra unique/ambiguous/unknown, reference, id "
    "none/valid/far/non-numeric pin, unknown), plus citation lists extracted from generated documents; oracle: the "
    "output is a partition into input-ordered sub-sequences of input objects, each starting with a full citation, "
    "full citations grouped exactly by an independent equality, no unknown citation; sequences up to length 3 are "
    "resolved a second time together with clones (copy / deepcopy / pickle round trip) of their full citations. Non-trivial: >= 1 full and >= 1 "
    "non-full citation in the list; distinct = distinct sequence / text"
)
ASSUMPTIONS = ["corrected_reporter() is trusted for the independent equality (checked by C16)", "default resolvers only"]
setup = RC.setup


def _full():
    from eyecite.models import FullCitation

    return FullCitation


def evaluate(case):
    res = Res()
    cits = RC.cits_for(case)
    if cits is None:
        res.label("skipped")
        return res
    res.nontrivial = RC.base_labels(res, case, cits)
    out = E.resolve(cits)
    if isinstance(out, Raised):
        res.label("raised")
        return res
    E.check_c06(res, cits, out)
    if "seq" in case and len(cits) <= 3 and any(isinstance(c, _full()) for c in cits):
        # Citation objects travel (caches, worker processes): the list resolved once more together with clones of its
        # full citations, made AFTER the first resolution has hashed and compared them. A clone is another citation
        # object with the same content and is subject to the same laws.
        import copy
        import pickle

        how = ("copy", "deep", "pickle")[sum(len(l) for l in case["seq"]) % 3]
        f = {"copy": copy.copy, "deep": copy.deepcopy, "pickle": lambda x: pickle.loads(pickle.dumps(x))}[how]
        clones = [f(c) for c in cits if isinstance(c, _full())]
        both = list(cits) + clones
        out2 = E.resolve(both)
        if not isinstance(out2, Raised):
            sub = Res()
            E.check_c06(sub, both, out2)
            for bucket, detail, *_ in sub.violations:
                res.v(f"with-clones[{how}]:" + bucket, detail)
            res.label("resolved-with-clones")
    if "seq" in case:
        # writer-based: which full-citation letters denote the same case is known from what was written
        exp = E.abstract_resolution(case["seq"])
        got = E.groups_as_indices(cits, out)
        fulls = {i for i, l in enumerate(case["seq"]) if l in E.CASE_OF or l in E.IDENTITY_FULL or l in E.OTHER_FULL}
        part = lambda gs: sorted(sorted(i for i in g if i in fulls) for g in gs if any(i in fulls for i in g))
        if part(exp) != part(got):
            res.v("abstract:full-citations-grouped-differently", f"{case['seq']}: implementation {part(got)}, written meaning {part(exp)}")
    return res


def phases(tier):
    return RC.phases(tier)
