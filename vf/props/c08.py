"""C08 - resolution is online: later citations never change earlier groupings."""
from vf import resolver_engine as E
from vf.core import Raised, Res
from vf.props import _resolver_common as RC

ID = "C08"
RULE = (
    "same domain as C06; oracle: for every prefix length k, resolve(list[:k]) equals the restriction of resolve(list) to "
    "the first k citations (same groups in the same order with the same member objects), and no non-full member precedes "
    "the full citation that introduced its resource. Non-trivial: >= 1 full and >= 1 non-full citation and length >= 2; "
    "distinct = distinct sequence / text"
)
ASSUMPTIONS = ["default resolvers only"]
setup = RC.setup


def evaluate(case):
    res = Res()
    cits = RC.cits_for(case)
    if cits is None:
        res.label("skipped")
        return res
    nt = RC.base_labels(res, case, cits)
    res.nontrivial = nt and len(cits) >= 2
    out = E.resolve(cits)
    if isinstance(out, Raised):
        res.label("raised")
        return res
    E.check_c08(res, cits, out)
    return res


def phases(tier):
    return RC.phases(tier)
