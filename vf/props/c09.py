"""C09 - annotation is purely additive: stripping the inserted strings restores the text."""
import re

from hypothesis import strategies as st

from vf import tk
from vf.core import Phase, Raised, Res, call
from vf.gen import legal, markup

ID = "C09"
RULE = (
    "(plain text over a mixed alphabet incl. <>& whitespace non-ASCII) x (0-6 spans inside [0,len]: overlapping, nested, "
    "touching, empty, unsorted, duplicate) x optional source text (tags/whitespace inserted, characters "
    "replaced/deleted, or unrelated) x {unchecked, skip, wrap} x {fast_diff_match_patch, difflib}; before/after are "
    "private-use sentinels that occur in neither text; plus spans returned by get_citations on marked-up grammar "
    "documents. Oracle (round trip): deleting the sentinels from the output gives the target text exactly. "
    "A quarter of the cases repeat the call with annotator=concatenation (the documented default of the hook): same output. "
    "Non-trivial: >= 2 annotations with an overlap/touch/empty span, or source != plain; distinct = distinct case"
)
ASSUMPTIONS = ["before/after strings contain no backslash and do not occur in the texts (the statement's precondition)"]
MODES = ["unchecked", "skip", "wrap"]
_SENT = re.compile("[\ue000\ue002][0-9]+[\ue001\ue003]")
ALPH = list("ab c.,1<>/ie\n&;é§") + ["<i>", "</i>", "<b>", "</em>", "Id.", " at 3", "  "]
TAGS = ["<i>", "</i>", "<em>", "</em>", "<b>", "</b>", "<p>", "</p>", " ", "  ", "\n", "<br/>", "&amp;", "\t"]


def setup(tier):
    tk.get(("ac",))


def sentinels(k):
    return f"\ue000{k}\ue001", f"\ue002{k}\ue003"


def evaluate(case):
    from eyecite import annotate_citations

    res = Res()
    if "markup" in case:
        return _eval_extracted(case, res)
    plain, source = case["plain"], case.get("source")
    spans = [tuple(s) for s in case["anns"]]
    if any(not (0 <= a <= b <= len(plain)) for a, b in spans):
        res.label("out-of-domain")
        return res
    if "\ue000" in plain or "\ue002" in plain or (source and ("\ue000" in source or "\ue002" in source)):
        res.label("out-of-domain")
        return res
    mode = case.get("mode", "unchecked")
    dmp = case.get("dmp", True)
    anns = [((a, b),) + sentinels(k) for k, (a, b) in enumerate(spans)]
    target = source if source else plain
    res.label("mode:" + mode, "dmp" if dmp else "difflib", "source" if source else "no-source")
    out = call(annotate_citations, plain, iter(anns) if case.get("iter") else anns, source_text=source, unbalanced_tags=mode, use_dmp=dmp)
    if isinstance(out, Raised):
        res.v(f"raises[{mode}]:{out.type}@{out.site}", f"{out!r} for plain={plain!r} spans={spans} source={source!r}")
    else:
        stripped = _SENT.sub("", out)
        if stripped != target:
            res.v(f"not-additive[{mode}]:{'source' if source else 'plain'}", f"plain={plain!r} spans={spans} source={source!r} dmp={dmp} -> {out!r}")
        if case.get("annotator"):
            # the documented default of the `annotator` hook is plain concatenation: passing exactly that must not
            # change the output, and what it is handed as citation text must be text of the target
            seen = []

            def concat(before, text, after):
                seen.append(text)
                return before + text + after

            out2 = call(annotate_citations, plain, anns, source_text=source, unbalanced_tags=mode, use_dmp=dmp, annotator=concat)
            res.label("annotator-hook")
            if isinstance(out2, Raised):
                res.v(f"raises[{mode}]:annotator:{out2.type}@{out2.site}", f"{out2!r} for plain={plain!r} spans={spans} source={source!r}")
            elif out2 != out:
                res.v(f"annotator-hook-changes-output[{mode}]", f"plain={plain!r} spans={spans} source={source!r} dmp={dmp}: {out!r} vs {out2!r}")
            elif mode != "wrap" and any(t not in target for t in seen):
                res.v(f"annotator-handed-foreign-text[{mode}]", f"plain={plain!r} spans={spans} source={source!r}: {seen!r}")
    srt = sorted(spans)
    special = any(a == b for a, b in spans) or any(x[1] >= y[0] for x, y in zip(srt, srt[1:]))
    res.nontrivial = (len(spans) >= 2 and special) or bool(source and source != plain)
    return res


def _eval_extracted(case, res):
    from eyecite import annotate_citations, clean_text, get_citations

    m, steps = case["markup"], case["steps"]
    cleaned = call(clean_text, m, steps)
    if isinstance(cleaned, Raised):
        res.label("raised")
        return res
    cites = call(get_citations, cleaned)
    if isinstance(cites, Raised):
        res.label("raised")
        return res
    anns = [(c.span(),) + sentinels(k) for k, c in enumerate(cites)]
    mode = case.get("mode", "skip")
    res.label("extracted-spans", "mode:" + mode)
    out = call(annotate_citations, cleaned, anns, source_text=m, unbalanced_tags=mode, use_dmp=case.get("dmp", True))
    if isinstance(out, Raised):
        res.v(f"raises[{mode}]:{out.type}@{out.site}", f"{out!r} for markup={m!r}")
    elif _SENT.sub("", out) != (m if m else cleaned):
        res.v(f"not-additive[{mode}]:extracted", f"markup={m!r} steps={steps} spans={[a[0] for a in anns]} -> {out!r}")
    # the same spans on the cleaned text alone (no source text): the plain-text path of the annotator
    out0 = call(annotate_citations, cleaned, anns, unbalanced_tags=mode, use_dmp=case.get("dmp", True))
    if isinstance(out0, Raised):
        res.v(f"raises[{mode}]:{out0.type}@{out0.site}", f"{out0!r} for cleaned text {cleaned!r}")
    elif _SENT.sub("", out0) != cleaned:
        res.v(f"not-additive[{mode}]:extracted-plain", f"text={cleaned!r} spans={[a[0] for a in anns]} -> {out0!r}")
    res.nontrivial = len(cites) >= 1 and m != cleaned
    return res


@st.composite
def _source_for(draw, plain):
    k = draw(st.integers(0, 9))
    if k < 3:
        return None
    s = list(plain)
    if k < 7:  # insert tags / whitespace
        for _ in range(draw(st.integers(0, 5))):
            i = draw(st.integers(0, len(s)))
            s.insert(i, draw(st.sampled_from(TAGS)))
        return "".join(s)
    if k < 9:  # replace / delete / insert characters
        for _ in range(draw(st.integers(0, 4))):
            if not s:
                break
            i = draw(st.integers(0, len(s) - 1))
            op = draw(st.integers(0, 2))
            if op == 0:
                del s[i]
            elif op == 1:
                s[i] = draw(st.sampled_from(ALPH))
            else:
                s.insert(i, draw(st.sampled_from(TAGS + ALPH)))
        return "".join(s)
    return "".join(draw(st.lists(st.sampled_from(ALPH), max_size=12)))  # unrelated


@st.composite
def _case(draw):
    plain = "".join(draw(st.lists(st.sampled_from(ALPH), max_size=25)))
    source = draw(_source_for(plain))
    spans = []
    for _ in range(draw(st.integers(0, 6))):
        a = draw(st.integers(0, len(plain)))
        b = draw(st.integers(a, len(plain)))
        spans.append([a, b])
    return {"plain": plain, "anns": spans, "source": source, "mode": draw(st.sampled_from(MODES)), "dmp": draw(st.booleans()), "iter": draw(st.integers(0, 4)) == 0,
            "annotator": draw(st.integers(0, 3)) == 0}


@st.composite
def _tagrich(draw):
    """Plain text that itself carries style tags (annotating markup directly), skip/wrap modes."""
    toks = ["<i>", "</i>", "<em>", "</em>", "<b>", "</b>", "Id.", " at 3", "; ", "x", " ", "1 U.S. 1", "<p>", "</p>", "&"]
    parts = draw(st.lists(st.sampled_from(toks), min_size=1, max_size=10))
    plain = "".join(parts)
    cuts = [0]
    for p_ in parts:
        cuts.append(cuts[-1] + len(p_))
    spans = []
    for _ in range(draw(st.integers(1, 5))):
        k = draw(st.integers(0, 5))
        if k < 3:  # a window of 1-3 consecutive tokens
            i = draw(st.integers(0, len(parts) - 1))
            j = min(len(parts), i + draw(st.integers(1, 3)))
            a, b = cuts[i], cuts[j]
        elif k < 5:
            a = draw(st.sampled_from(cuts))
            b = draw(st.sampled_from(cuts))
        else:
            a = draw(st.integers(0, len(plain)))
            b = draw(st.integers(0, len(plain)))
        spans.append([min(a, b), max(a, b)])
    source = None
    if draw(st.integers(0, 3)) == 0:
        source = draw(_source_for(plain))
    return {"plain": plain, "anns": spans, "source": source, "mode": draw(st.sampled_from(["skip", "skip", "wrap"])), "dmp": draw(st.booleans()),
            "annotator": draw(st.integers(0, 3)) == 0}


@st.composite
def _style_pair(draw):
    """<t> W1 sep W2 </t> W3 with one annotation inside the element and one crossing its closing tag (or its mirror)."""
    tag = draw(st.sampled_from(["i", "em", "b"]))
    w = st.sampled_from(["Id.", "id.", "at 3", "x", "1 U.S. 1", "Foo", ""])
    pre, w1, sep, w2, w3 = draw(w), draw(w), draw(st.sampled_from(["; ", " ", "", ", "])), draw(w), draw(st.sampled_from([" at 5", "", " x", ";"]))
    parts = [pre, f"<{tag}>", w1, sep, w2, f"</{tag}>", w3]
    cuts = [0]
    for p_ in parts:
        cuts.append(cuts[-1] + len(p_))
    plain = "".join(parts)
    k = draw(st.integers(0, 3))
    if k == 0:
        spans = [[cuts[2], cuts[3]], [cuts[4], draw(st.integers(cuts[6], cuts[7]))]]
    elif k == 1:
        spans = [[draw(st.integers(cuts[0], cuts[1])), cuts[3]], [cuts[4], cuts[5]]]
    elif k == 2:
        # only the span that crosses the closing tag: the repair reaches back over the gap (w1 + sep) to the opening tag
        spans = [[cuts[4], draw(st.integers(cuts[6], cuts[7]))]]
    else:
        # only the span that contains the opening tag: the repair reaches forward to the closing tag
        spans = [[draw(st.integers(cuts[0], cuts[1])), draw(st.integers(cuts[2], cuts[4]))]]
    if draw(st.integers(0, 2)) == 0:
        a = draw(st.integers(0, len(plain)))
        spans.append([a, draw(st.integers(a, len(plain)))])
    spans = draw(st.permutations(spans))
    return {"plain": plain, "anns": [list(x) for x in spans], "source": None, "mode": draw(st.sampled_from(["skip", "skip", "wrap"])), "dmp": True}


@st.composite
def _long_case(draw):
    """Long (> 120 characters) multi-line plain texts with repeated lines (diff engines switch strategy on long inputs)."""
    lines = draw(st.lists(st.lists(st.sampled_from(["a", "b", " ", "1", ".", "U.S.", "Id.", "§", "é", "x y"]), min_size=3, max_size=10).map("".join), min_size=2, max_size=4))
    seq = draw(st.lists(st.integers(0, len(lines) - 1), min_size=10, max_size=20))
    plain = "\n".join(lines[i] for i in seq)
    source = draw(_source_for(plain))
    if source is not None and draw(st.booleans()):
        s2 = list(source)
        for _ in range(draw(st.integers(1, 8))):
            s2.insert(draw(st.integers(0, len(s2))), draw(st.sampled_from(TAGS)))
        source = "".join(s2)
    spans = []
    for _ in range(draw(st.integers(0, 6))):
        a = draw(st.integers(0, len(plain)))
        b = draw(st.integers(a, min(len(plain), a + 30)))
        spans.append([a, b])
    return {"plain": plain, "anns": spans, "source": source, "mode": draw(st.sampled_from(MODES)), "dmp": draw(st.booleans())}


def _extracted():
    return st.builds(lambda mk, mode, dmp: {**mk, "mode": mode, "dmp": dmp}, markup.marked_up(), st.sampled_from(MODES), st.sampled_from([True, True, False]))


def phases(tier):
    n, n2 = (60000, 2000) if tier == "quick" else (1000000, 50000)
    return [Phase("random", "gen", strategy=_case, n=n), Phase("tag-rich", "gen", strategy=_tagrich, n=n // 2),
            Phase("style-pair", "gen", strategy=_style_pair, n=n // 10),
            Phase("long-multiline", "gen", strategy=_long_case, n=n // 10),
            Phase("extracted", "gen", strategy=_extracted, n=n2)]
