"""C14 - the Hyperscan tokenizer is a drop-in replacement; cache robustness."""
import json
import os
import re
import shutil
import subprocess
import sys
import time

from hypothesis import strategies as st

from vf import tk
from vf.core import HOME, HarnessError, Phase, Raised, Res, call
from vf.gen import legal, regexgen

ID = "C14"
RULE = (
    "(a0) strings derived from the pattern of one extractor per template shape (~210 shapes: every alternative, optional "
    "part and repeatable part once more than its minimum; ~9,000 strings), each with ASCII and multi-byte neighbours; "
    "(a) grammar documents with multi-byte characters (curly quotes, dashes, accented letters, section/paragraph signs, "
    "astral characters) inserted before/after/between/inside citations, restricted to the stated domain (no non-ASCII "
    "whitespace or digits, none of the re.I equivalents); candidate-level oracle: every reference candidate (type, "
    "offsets, text, groups, editions, short) is reported by Hyperscan, and every extra Hyperscan candidate is a genuine "
    "match of some extractor's core pattern at those offsets whose real neighbours satisfy the boundary wrapper; "
    "citation-level: get_citations agrees when the candidate sets coincide and no two distinct candidates share a "
    "span. (b) cache faults applied to a freshly written cache file of an 11-extractor tokenizer (and, for length "
    "classes, of the full tokenizer), each in a child process: absent directory, empty file, truncation (quick: length "
    "classes; thorough: every length), single-bit flips over the whole header and sampled body offsets, overwritten "
    "header fields, garbage, appended bytes, zero-filled ranges; oracle: construction and tokenizing do not raise (or "
    "crash) and give the tokens of cache_dir=None, also on the next construction. Non-trivial: (a) a multi-byte "
    "character adjacent to a candidate; (b) each distinct fault descriptor; distinct = distinct case"
)
ASSUMPTIONS = [
    "a valid database for a different pattern list stored under this fingerprint is outside the statement's fault list (undetectable by design)",
    "body corruptions that pass Hyperscan's CRC are sampled, not enumerated",
    "the Aho-Corasick filter (checked by C13) is used only to narrow which extractors are tried when judging an extra candidate",
]
G = {}
W1 = "(?:^|[^a-zA-Z0-9])("
W1E = ")(?:[^a-zA-Z0-9]|$)"
W2 = "(?:^|\\s)("
W2E = ")(?:\\s|$)"


def setup(tier):
    G.update(tk.get(("ref", "hs", "ac")))
    bad = set()
    for eqs in regexgen.ci_equivalents().values():
        bad.update(eqs)
    G["ci"] = bad


def in_domain(text):
    for ch in text:
        if ord(ch) > 127 and (ch.isspace() or ch.isdigit() or ch.isnumeric() or ch in G["ci"]):
            return False
        if 0xD800 <= ord(ch) <= 0xDFFF:
            return False
    return True


def sanitize(text):
    return "".join(ch if (ord(ch) < 128 or not (ch.isspace() or ch.isdigit() or ch.isnumeric() or ch in G.get("ci", ()))) else "x" for ch in text)


def key(t):
    return (type(t).__name__, t.start, t.end, str(t), tuple(sorted((k, str(v)) for k, v in t.groups.items())),
            tuple(sorted((e.short_name, e.reporter.short_name) for e in getattr(t, "exact_editions", ()))),
            tuple(sorted((e.short_name, e.reporter.short_name) for e in getattr(t, "variation_editions", ()))), getattr(t, "short", None))


def _core(ex):
    c = getattr(ex, "_vf_core", None)
    if c is None:
        rg = ex.regex
        if rg.startswith(W1) and rg.endswith(W1E):
            c = (re.compile(rg[len(W1):-len(W1E)], ex.flags), lambda ch: not (ch.isascii() and ch.isalnum()))
        elif rg.startswith(W2) and rg.endswith(W2E):
            c = (re.compile(rg[len(W2):-len(W2E)], ex.flags), lambda ch: ch.isspace())
        elif rg.startswith("(") and rg.endswith(")") and "(?:^|" not in rg:
            c = (re.compile(rg[1:-1], ex.flags), lambda ch: True)
        else:
            raise HarnessError(f"unrecognised boundary wrapper in extractor pattern {rg[:80]!r}")
        ex._vf_core = c
    return c


def genuine(ex, text, start, end):
    core, ok = _core(ex)
    return bool(core.fullmatch(text, start, end)) and (start == 0 or ok(text[start - 1])) and (end == len(text) or ok(text[end]))


def _shared_boundary(text, k, B, extractors):
    """Is the reference candidate k = (type, start, end, text, ...) one that Hyperscan reports with an earlier start
    because two matches of ONE pattern share a boundary character?  Decided with Python's re alone: find the
    extractor and the finditer match that produced k, re-offer the boundary character that the previous match of the
    same pattern consumed, and see whether the pattern then matches with an earlier start and the same end - and
    whether that is what Hyperscan reported.  Returns (which optional part, Hyperscan's candidate) or None."""
    name, s_, e_ = k[0], k[1], k[2]
    low = text.lower()
    for ex in extractors:
        if ex.constructor.__self__.__name__ != name:
            continue
        if ex.strings and not any((st_.lower() if ex.flags & re.I else st_) in (low if ex.flags & re.I else text) for st_ in ex.strings):
            continue
        prev = None
        for m in ex.compiled_regex.finditer(text):
            if m.span(1) == (s_, e_):
                if prev is not None and prev.end() > prev.end(1) and prev.end() - 1 < s_:
                    m2 = ex.compiled_regex.match(text, prev.end() - 1)
                    if m2 and m2.end(1) == e_ and m2.start(1) < s_:
                        cand = (name, m2.start(1), e_, text[m2.start(1):e_])
                        if any(b[:4] == cand for b in B):
                            part = "space" if text[m2.start(1):s_] == " " else ("volume" if (m2.groupdict().get("volume") and not m.groupdict().get("volume")) else "part")
                            return part, cand
                break
            prev = m
    return None


def evaluate(case):
    if case.get("kind") == "fault":
        return eval_fault(case)
    from eyecite import get_citations

    res = Res()
    text = case["text"]
    if not in_domain(text):
        res.label("out-of-domain")
        return res
    ref, hs, ac = G["ref"], G["hs"], G["ac"]
    a = call(lambda: list(ref.extract_tokens(text)))
    b = call(lambda: list(hs.extract_tokens(text)))
    if isinstance(a, Raised):
        res.label("ref-raised")
        return res
    if isinstance(b, Raised):
        res.v("hyperscan-raises:" + b.bucket(), repr(b))
        return res
    A = {key(t): t for t in a}
    B = {key(t): t for t in b}
    mb_adjacent = False
    for k, t in A.items():
        st_, en = k[1], k[2]
        adj = (st_ > 0 and ord(text[st_ - 1]) > 127) or (en < len(text) and ord(text[en]) > 127)
        mb_adjacent = mb_adjacent or adj
        if k not in B:
            sb = _shared_boundary(text, k, B, ref.extractors)
            if sb:
                # the same match, reported by Hyperscan with an optional leading part of its template (a blank, a volume)
                # that the reference could not take because the boundary character in front of it was consumed as the
                # trailing boundary of the previous match of the same pattern (finditer never re-offers a character)
                res.v(f"candidate-shifted:shared-boundary-optional-{sb[0]}:{k[0]}", f"reference candidate {k[:4]} is reported by Hyperscan as {sb[1]} in {text!r}")
            else:
                res.v(f"candidate-missing:{k[0]}:{'multibyte-neighbour' if adj else 'ascii-neighbour'}", f"reference candidate {k[:4]} not reported by Hyperscan in {text!r}")
    extras = [k for k in B if k not in A]
    if extras:
        res.label("extra-candidates")
        cands = call(ac.get_extractors, text)
        if isinstance(cands, Raised):
            cands = ref.extractors
        for k in extras:
            ok = False
            for ex in cands:
                if ex.constructor.__self__.__name__ != k[0]:
                    continue
                if genuine(ex, text, k[1], k[2]):
                    ok = True
                    break
            if not ok:
                res.v(f"extra-candidate-not-genuine:{k[0]}", f"Hyperscan candidate {k[:4]} is not a match at those offsets with the real neighbours in {text!r}")
    if set(A) == set(B):
        spans = [(k[1], k[2]) for k in A]
        if len(spans) == len(set(spans)):
            ca = call(get_citations, text, tokenizer=ref)
            cb = call(get_citations, text, tokenizer=hs)
            if not isinstance(ca, Raised) and not isinstance(cb, Raised):
                from vf.ser import ser

                if ser(ca) != ser(cb):
                    res.v("citations-differ", f"reference and Hyperscan citations differ for {text!r}")
                res.label("citation-level-compared")
    if mb_adjacent:
        res.label("multibyte-adjacent")
    res.nontrivial = mb_adjacent
    return res


@st.composite
def _mb_doc(draw):
    t = draw(legal.document(hostile=False, multibyte=True, max_frags=6))
    s = list(t)
    for _ in range(draw(st.integers(0, 5))):
        i = draw(st.integers(0, len(s)))
        s.insert(i, draw(st.sampled_from(legal.MULTIBYTE)))
    # adjacency by construction: wrap a citation-looking run in quotes
    t = "".join(s)
    if draw(st.integers(0, 2)) == 0:
        q = draw(st.sampled_from([("“", "”"), ("‘", "’"), ("—", "—"), ("é", "ü"), ("§", "¶"), ("𝒜", "…")]))
        frag = draw(st.one_of(legal.full(), legal.short(), legal.idc(), legal.supra(), st.sampled_from(legal.LAWS)))
        t = t + draw(st.sampled_from([" ", ". ", ""])) + q[0] + frag + q[1] + draw(st.sampled_from(["", " x", "."]))
    if draw(st.integers(0, 2)) == 0:
        # citations separated by exactly one multi-byte character and nothing else (2-, 3- and 4-byte separators)
        cit = st.one_of(legal.full(), legal.short(), legal.idc(), st.sampled_from(legal.LAWS), legal.pattern_citation())
        sep = st.sampled_from(["§", "¶", "·", "é", "ü", "ñ", "—", "“", "”", "…", "𝒜"])
        chain = draw(cit)
        for _ in range(draw(st.integers(1, 3))):
            chain += draw(sep) + draw(cit)
        t = t + draw(st.sampled_from([" ", ". ", "\n"])) + chain
    return {"text": sanitize(t)}


# --------------------------------------------------------------------------- (b) cache faults


def _fault_list(tier, good_len, seed):
    import random

    r = random.Random(seed)
    faults = [{"fault": "absent-dir"}, {"fault": "empty"}, {"fault": "none"}, {"fault": "dir-instead-of-file"},
              {"fault": "other-flags", "mode": 0}, {"fault": "other-flags", "mode": 1}]
    if tier == "quick":
        lens = sorted(set(list(range(0, 65)) + [2 ** k for k in range(6, 40) if 2 ** k < good_len] + [good_len // 2, good_len // 3, good_len - 1, good_len - 2, good_len - 64]
                          + [r.randrange(good_len) for _ in range(40)]))
    else:
        lens = list(range(good_len))
    faults += [{"fault": "truncate", "n": n} for n in lens if 0 <= n < good_len]
    for byte in range(0, 64):
        for bit in (range(8) if byte < 32 or tier != "quick" else (0, 7)):
            faults.append({"fault": "bitflip", "byte": byte, "bit": bit})
    for _ in range(60 if tier == "quick" else 3000):
        faults.append({"fault": "bitflip", "byte": r.randrange(good_len), "bit": r.randrange(8)})
    for off in (0, 4, 8, 12, 16, 20, 24, 28):
        for val in (0, 1, 0xFFFFFFFF, 0x01020304, good_len, r.randrange(1 << 32)):
            faults.append({"fault": "header-field", "offset": off, "value": val})
    for i in range(12 if tier == "quick" else 200):
        faults.append({"fault": "garbage", "seed": i, "len": r.choice([1, 7, 32, 33, 100, 4096, good_len])})
        faults.append({"fault": "garbage-tail", "seed": i, "keep": r.randrange(good_len)})
        faults.append({"fault": "append", "seed": i, "n": r.choice([1, 2, 8, 100, 5000])})
        a = r.randrange(good_len)
        faults.append({"fault": "zero-fill", "from": a, "to": a + r.choice([1, 4, 64, 4096])})
    return faults


def _run_children(db, faults, batch, label, total, parallel=16):
    """Run fault batches in child processes; returns list of (fault, record)."""
    root = os.path.join(HOME, "out", "C14", f"faults-{os.getpid()}-{label}")
    shutil.rmtree(root, ignore_errors=True)
    os.makedirs(root)
    results = []
    try:
        batches = [faults[i: i + batch] for i in range(0, len(faults), batch)]
        pending = list(enumerate(batches))
        running = []
        while pending or running:
            while pending and len(running) < parallel:
                bi, fl = pending.pop(0)
                wd = os.path.join(root, f"b{bi}")
                os.makedirs(wd, exist_ok=True)
                jp, op = os.path.join(wd, "job.json"), os.path.join(wd, "out.jsonl")
                json.dump({"db": db, "faults": fl, "workdir": wd}, open(jp, "w"))
                p = subprocess.Popen([sys.executable, "-m", "vf.c14_child", jp, op], stdout=subprocess.DEVNULL, stderr=subprocess.PIPE)
                running.append((bi, fl, wd, op, p))
            for item in list(running):
                bi, fl, wd, op, p = item
                if p.poll() is None:
                    continue
                running.remove(item)
                recs = {}
                begun = set()
                if os.path.exists(op):
                    for line in open(op):
                        try:
                            d = json.loads(line)
                        except Exception:
                            continue
                        if "good_len" in d:
                            continue
                        if d.get("begin"):
                            begun.add(d["i"])
                        else:
                            recs[d["i"]] = d
                err = p.stderr.read().decode(errors="replace")[-400:]
                for i, f in enumerate(fl):
                    if i in recs:
                        results.append((f, recs[i]))
                    elif i in begun:
                        results.append((f, {"crash": p.returncode, "detail": err}))
                    elif p.returncode != 0 and not begun and not recs:
                        raise HarnessError(f"cache-fault child failed before any fault ran (exit {p.returncode}): {err}")
                    else:
                        # not reached because an earlier fault killed the child: re-queue individually
                        pending.append((10 ** 6 + len(results) + i, [f]))
                shutil.rmtree(wd, ignore_errors=True)
            time.sleep(0.02)
    finally:
        shutil.rmtree(root, ignore_errors=True)
    return results


def _judge(f, rec, db):
    res = Res()
    res.nontrivial = True
    res.label("phase:cache-faults", "db:" + db, "fault:" + f["fault"])
    name = f["fault"]
    if "crash" in rec:
        res.v(f"cache:{name}:native-crash", f"child exited with {rec['crash']}: {rec.get('detail', '')}")
    elif rec.get("raised"):
        res.v(f"cache:{name}:raises:{rec['raised']}", rec.get("detail", ""))
    elif not rec.get("same"):
        res.v(f"cache:{name}:tokens-differ", rec.get("detail", ""))
    elif rec.get("same_second") is False:
        res.v(f"cache:{name}:tokens-differ-on-next-construction", "")
    return res


def fault_phase(tier):
    def run(total, seed):
        probe = _run_children("small", [{"fault": "none"}], 1, "probe", total, parallel=1)
        # learn the size of the good cache file from a probe child
        size = _good_len("small")
        faults = _fault_list(tier, size, seed)
        for f, rec in _run_children("small", faults, 40 if tier == "quick" else 400, "small", total):
            total.add("cache-faults", {"kind": "fault", "db": "small", **f}, _judge(f, rec, "small"))
        total.extra["small_cache_bytes"] = size
        total.extra["truncation_lengths_exhaustive"] = tier != "quick"
        # the full tokenizer's cache: length classes and header flips only (each failing load costs a recompile)
        fsize = _good_len("full")
        r_faults = [{"fault": "empty"}, {"fault": "truncate", "n": 1}, {"fault": "truncate", "n": 31}, {"fault": "truncate", "n": fsize // 2},
                    {"fault": "truncate", "n": fsize - 1}, {"fault": "bitflip", "byte": 5, "bit": 0}, {"fault": "bitflip", "byte": 13, "bit": 3},
                    {"fault": "bitflip", "byte": fsize // 2, "bit": 1}, {"fault": "append", "n": 8, "seed": 1}, {"fault": "header-field", "offset": 4, "value": 7}]
        if tier != "quick":
            r_faults += [{"fault": "truncate", "n": n} for n in (2, 4, 8, 16, 32, 64, 4096, 1 << 20, fsize - 64)] + [{"fault": "bitflip", "byte": b, "bit": 2} for b in range(0, 32)]
        for f, rec in _run_children("full", r_faults, 1, "full", total):
            total.add("cache-faults-full", {"kind": "fault", "db": "full", **f}, _judge(f, rec, "full"))
        total.extra["full_cache_bytes"] = fsize

    return run


def _good_len(db):
    root = os.path.join(HOME, "out", "C14", f"len-{os.getpid()}-{db}")
    shutil.rmtree(root, ignore_errors=True)
    os.makedirs(root)
    try:
        jp, op = os.path.join(root, "job.json"), os.path.join(root, "out.jsonl")
        json.dump({"db": db, "faults": [], "workdir": root}, open(jp, "w"))
        r = subprocess.run([sys.executable, "-m", "vf.c14_child", jp, op], capture_output=True)
        if r.returncode != 0:
            raise HarnessError(f"cannot write a good cache: {r.stderr.decode()[-400:]}")
        return json.loads(open(op).readline())["good_len"]
    finally:
        shutil.rmtree(root, ignore_errors=True)


def eval_fault(case):
    f = {k: v for k, v in case.items() if k not in ("kind", "db")}
    out = _run_children(case.get("db", "small"), [f], 1, "replay", None, parallel=1)
    return _judge(f, out[0][1], case.get("db", "small"))


NO_SHRINK_KINDS = {"fault"}


def shrink(case, fails):
    from vf.core import shrink_case

    if case.get("kind") == "fault":
        return case
    return shrink_case(case, fails, budget_n=600)


def _shape_items(tier):
    """Strings derived from the pattern of one extractor per template shape (every alternative, every optional part,
    every repeatable part once more than its minimum), each with ASCII and with multi-byte neighbours. The strings are
    derived at run time from the patterns of the tree under test, so a syntax the patterns newly accept is exercised."""
    from eyecite.tokenizers import EXTRACTORS

    out = []
    seen = set()
    reps = regexgen.shape_representatives(EXTRACTORS)
    if tier != "quick":
        # thorough: also the first extractor of every reporter-independent shape's second and third instance
        reps = reps + [(i, e) for i, e in enumerate(EXTRACTORS) if i % 40 == 7]
    for _, e in reps:
        for cand in regexgen.alternatives(e.regex, e.flags, limit=1500):
            m = e.compiled_regex.search(cand)
            if not m:
                continue
            core = m.group(1)
            if core in seen or not core.strip():
                continue
            seen.add(core)
            out.append({"text": sanitize(f"See {core}. Then")})
            out.append({"text": sanitize(f"\u201c{core}\u201d\u2014\u00e9")})
    return out


def phases(tier):
    n = 4000 if tier == "quick" else 60000
    return [
        Phase("pattern-shapes", "enum", items=lambda: _shape_items(tier), exhaustive=True, distinct=True, chunk=50),
        Phase("multibyte-docs", "gen", strategy=_mb_doc, n=n),
        Phase("cache-faults", "custom", fn=fault_phase(tier)),
    ]
