"""C07 - resolution never guesses between candidates; id. follows only its predecessor."""
from vf import resolver_engine as E
from vf.core import Raised, Res
from vf.props import _resolver_common as RC

ID = "C07"
RULE = (
    "same domain as C06 (exhaustive alphabet sequences up to length L + lists extracted from generated documents); "
    "oracle: a reference model written from the statement computes, for each non-full citation, the set of matching "
    "earlier resources (short: same corrected reporter+volume, then antecedent; supra/reference: party/resolved names; "
    "id.: predecessor's resource, placeholder page, numeric pin within [page, page+150]); wherever the implementation "
    "attaches a citation the model must allow exactly that resource. Non-trivial: some citation has >= 2 candidate "
    "resources, or an id. follows an unresolved citation; distinct = distinct sequence / text"
)
ASSUMPTIONS = [
    "safety direction only (attachment implies the model's unique candidate); that unambiguous references ARE attached is C05's claim",
    "eyecite.utils.strip_punct is trusted for antecedent normalisation",
    "id. pin clauses are evaluated only when the antecedent's first page is numeric; the placeholder clause for case citations",
]
setup = RC.setup


def evaluate(case):
    res = Res()
    cits = RC.cits_for(case)
    if cits is None:
        res.label("skipped")
        return res
    RC.base_labels(res, case, cits)
    out = E.resolve(cits)
    if isinstance(out, Raised):
        res.label("raised")
        return res
    amb = E.check_c07(res, cits, out)
    if "seq" in case:
        E.check_abstract(res, case["seq"], cits, out, safety_only=True)
    if amb:
        res.label("ambiguous-or-id-after-unresolved")
    res.nontrivial = bool(amb)
    return res


def phases(tier):
    return RC.phases(tier)
