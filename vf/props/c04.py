"""C04 - extraction, resolution and annotation never raise on any string."""
from hypothesis import strategies as st

from vf import tk
from vf.core import Phase, Raised, Res, call
from vf.gen import legal

ID = "C04"
RULE = (
    "grammar-generated legal text spliced with hostile fragments (Unicode spaces, non-ASCII digits, NUL/C0, lone "
    "brackets, long digit runs, section signs glued to words, placeholder pages) and character mutations, plus raw "
    "hostile-alphabet strings, plus an enumerated family of long inputs (40 units x 40 ... 4,400 repetitions - thorough "
    "40,000 - x 3 prefixes x 4 suffixes: beyond every scan window and recursion depth); each evaluated under {ref, ac, hs} x remove_ambiguous x {unchecked, skip, wrap}. "
    "Oracle: no exception escapes get_citations / resolve_citations / annotate_citations; exceptions are bucketed by "
    "(type, innermost eyecite frame). Non-trivial: the text contains a hostile (non-ASCII or control) character or a "
    "placeholder page and yields >= 1 citation, or an id. citation was resolved against an antecedent; "
    "distinct = distinct (text, tokenizer, remove_ambiguous)"
)
ASSUMPTIONS = [
    "lone surrogates are outside the domain (not encodable as UTF-8, which lxml and Hyperscan require)",
    "'raises on invalid input' contracts (unknown mode / step name) are not in the domain",
]
MODES = ["unchecked", "skip", "wrap"]


def setup(tier):
    tk.get(("ac", "hs", "ref"))


def evaluate(case):
    from eyecite import annotate_citations, get_citations, resolve_citations
    from eyecite.models import IdCitation

    res = Res()
    if case.get("kind") == "long":
        # long inputs are described compactly: pre + unit * reps + post
        if not (isinstance(case.get("reps"), int) and 0 <= case["reps"] <= 200000):
            res.label("out-of-domain")
            return res
        text = case["pre"] + case["unit"] * case["reps"] + case["post"]
        res.label("long-input")
    else:
        text = case["text"]
    which = case.get("tokenizer", "ac")
    ra = bool(case.get("remove_ambiguous"))
    res.label("tokenizer:" + which, "remove_ambiguous:" + str(ra))
    cites = call(get_citations, text, remove_ambiguous=ra, tokenizer=tk.get((which,))[which])
    if isinstance(cites, Raised):
        res.v("get_citations:" + cites.bucket(), repr(cites))
        return res
    if not isinstance(cites, list):
        res.v("get_citations:not-a-list", type(cites).__name__)
        return res
    # the same text again with the same tokenizer object and the other option set (how callers compare the two)
    again = call(get_citations, text, remove_ambiguous=not ra, tokenizer=tk.get((which,))[which])
    if isinstance(again, Raised):
        res.v("get_citations:second-call:" + again.bucket(), repr(again))
    hostile = (not text.isascii()) or any(ord(ch) < 32 and ch not in "\n\t" for ch in text) or "_" in text
    resolved = call(resolve_citations, cites)
    id_resolved = False
    if isinstance(resolved, Raised):
        res.v("resolve_citations:" + resolved.bucket(), repr(resolved))
    else:
        if not hasattr(resolved, "items"):
            res.v("resolve_citations:not-a-mapping", type(resolved).__name__)
        else:
            id_resolved = any(isinstance(c, IdCitation) for v in resolved.values() for c in v)
    anns = [(c.span(), "<a>", "</a>") for c in cites]
    for mode in MODES:
        out = call(annotate_citations, text, iter(anns) if mode == "skip" and len(text) % 2 else anns, unbalanced_tags=mode)
        if isinstance(out, Raised):
            res.v(f"annotate_citations[{mode}]:" + out.bucket(), repr(out))
        elif not isinstance(out, str):
            res.v(f"annotate_citations[{mode}]:not-a-str", type(out).__name__)
    if cites:
        res.label("has-citation")
    if hostile:
        res.label("hostile-char")
    if id_resolved:
        res.label("id-resolved")
    res.nontrivial = bool((cites and hostile) or id_resolved or (case.get("kind") == "long" and len(text) > 300))
    return res


LONG_UNITS = ["(", ")", "( a", "Id. at 3. ", "Bar, supra, at 5. ", "1 U.S. 1, ", ", 2", "v. ", "\u00a7 ", "\u00a7\u00a7", "_", "___ ", "\n", " ",
              "\u00a0", "1 ", "a", "Bar ", "[", "<i>", "</i>", "See ", "at ", "1 U.S. at 3; ", "\u00e9", "(1999) ", "n. 5, ", "& ", "* ", "-", "2d ",
              "In re ", "\u201c", "12 F.2d 34 (quoting ", ") (", "; id.", "\t", "9", "x", "xi"]


def _long_items(tier):
    """Repetition beyond every internal window (28 tokens, 300 characters, recursion depth, block sizes)."""
    reps = [40, 400, 3000, 4400] if tier == "quick" else [40, 400, 3000, 4400, 40000]
    out = []
    for ui, unit in enumerate(LONG_UNITS):
        for pre in ("", "Foo v. Bar, 1 U.S. 1 ", "Foo v. Bar, 2 U.S. ", "Foo v. Bar, 1 U.S. 1. Id. at "):  # the last: the repetition is the pin cite of an id.
            for post in ("", " 1 U.S. 1 (1999)", ", supra.", " Id. at 5"):
                for r in reps:
                    if r * len(unit) > 120000:
                        continue
                    which = "hs" if (ui + r) % 5 == 0 else "ac"
                    out.append({"kind": "long", "pre": pre, "unit": unit, "reps": r, "post": post, "tokenizer": which, "remove_ambiguous": False})
    return out


_HOST_ALPHA = legal.HOSTILE + legal.PUNCT + ["1", "2", "9", " ", " ", "U.S.", "Id.", "supra", "v.", "at", "<", ">", "<i>", "</i>", "&",
                                              "___", "Minn. L. Rev.", "§", "F.2d", "(", ")", "1999", "Foo", "퟿", "\U0010ffff", "￾"]


def _raw():
    return st.lists(st.sampled_from(_HOST_ALPHA), min_size=1, max_size=25).map("".join)


def _anytext():
    """Arbitrary Unicode (no surrogates) with citation-looking pieces spliced in."""
    piece = st.one_of(st.text(alphabet=st.characters(blacklist_categories=("Cs",)), max_size=12),
                      st.sampled_from(["1 U.S. 1", "Id.", " at 5", "supra", "§", "v.", "(1999)", "2 F.2d 3,", "___", " ", "\n"]))
    return st.lists(piece, min_size=1, max_size=10).map("".join)


@st.composite
def _tagged(draw):
    """Legal text in which style tags are glued to tokens (annotating markup directly): spans returned by
    get_citations can then contain tags, which is what the skip / wrap modes react to."""
    t = draw(st.sampled_from(["i", "em", "b"]))
    n = draw(st.integers(1, 99))
    piece = st.one_of(
        st.sampled_from([f"<{t}>§{n} of</{t}>", f"<{t}>§§{n}</{t}> and", f"§<{t}>{n}</{t}>", f"<{t}>Id.</{t}> at {n}", f"Id.<{t}> at {n}</{t}>",
                         f"<{t}>1 U.S. {n}</{t}>", f"1 <{t}>U.S.</{t}> {n}", f"{n} F.2d<{t}> {n}</{t}>", f"<{t}>supra</{t}>, at {n}", f"x§</{t}>"]),
        legal.fragment(hostile=False),
    )
    parts = draw(st.lists(piece, min_size=1, max_size=5))
    return draw(st.sampled_from(["", "as provided in ", "See "])) + draw(st.sampled_from([" ", ". ", "; "])).join(parts) + draw(st.sampled_from(["", " the act", "."]))


_DEGENERATE = ["", " ", "\n", "1", "§", "Id.", "supra", "v.", "(", ")", "1 U.S. 1", "U.S.", "___", "\x00", "at", "Id. at", "1 U.S.", "U.S. 1", "1 U.S. at",
               "See", "¶", "&", "<i>", "\ufeff", "\u200b"]


def _cases(which, ra):
    docs = st.one_of(legal.document(hostile=True), legal.document(hostile=True), _raw(), _anytext(), _tagged(), st.sampled_from(_DEGENERATE))
    return docs.map(lambda t: {"text": t, "tokenizer": which, "remove_ambiguous": ra})


def phases(tier):
    n_ac, n_other = (6000, 1500) if tier == "quick" else (120000, 25000)
    out = [Phase("long-inputs", "enum", items=lambda: _long_items(tier), exhaustive=True, distinct=True, chunk=4)]
    for which, n in (("ac", n_ac), ("hs", n_other), ("ref", n_other)):
        for ra in (False, True):
            out.append(Phase(f"docs-{which}-{'ra' if ra else 'plain'}", "gen", strategy=(lambda w=which, r=ra: _cases(w, r)), n=n // 2))
    return out
