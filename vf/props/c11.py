"""C11 - 'skip' and 'wrap' modes keep well-formed markup well-formed."""
from hypothesis import strategies as st

from vf.core import Phase, Raised, Res, call

ID = "C11"
RULE = (
    "random well-formed element trees (style tags i/em/b and block tags p/div/span/blockquote, depth <= 4; text alphabet "
    "upper-case/digits/space/punctuation disjoint from tag characters so the alignment is forced) x 1-5 spans over the "
    "text content (token-aligned and arbitrary, overlapping, empty) x {skip, wrap} x {fast_diff_match_patch, difflib} (a quarter of the trees over a repetitive "
    "two-letter text so that the matching-block engine is left with text-against-tag replacements); before/after = <a id=\"k\"> / </a>. "
    "Oracle: lxml parses '<div>'+output+'</div>' (the judge eyecite itself uses); its text content equals the plain "
    "text; in wrap mode every requested annotation that is non-empty after clipping to earlier ones is present. "
    "Non-trivial: some span's source slice is unbalanced markup; distinct = distinct case"
)
ASSUMPTIONS = ["well-formedness is judged by lxml.etree.fromstring, the same parser eyecite.utils.is_balanced_html uses"]
TXT = "ABCDEFGH 0123456789.,;:§U.S"
STYLE = ["i", "em", "b"]
BLOCK = ["p", "div", "span", "blockquote"]


def setup(tier):
    from vf.core import HarnessError

    if set(TXT) & set("<>/=\"'\n" + "".join(STYLE + BLOCK) + "classid"):
        raise HarnessError("text alphabet must be disjoint from the markup characters")


def ser(nodes, base=0, pos=None):
    """Serialise a tree. Returns (source, text content); pos (if given) collects the source offset of every text character."""
    s = t = ""
    for n in nodes:
        if isinstance(n, str):
            if pos is not None:
                pos.extend(range(base + len(s), base + len(s) + len(n)))
            s += n
            t += n
        else:
            # attributes are separated by a line break, not a blank: the text alphabet contains the blank, and the
            # forced alignment needs every markup character to be foreign to the text
            open_ = f"<{n[0]}\nclass=\"c\"\nid='k'>" if (n[0] in BLOCK and len(n[1]) % 2 == 0) else f"<{n[0]}>"
            a, b = ser(n[1], base + len(s) + len(open_), pos)
            s += open_ + a + f"</{n[0]}>"
            t += b
    return s, t


def _valid_tree(nodes, depth=0):
    if depth > 6 or not isinstance(nodes, list):
        return False
    for n in nodes:
        if isinstance(n, str):
            if any(ch not in TXT for ch in n):
                return False
        elif isinstance(n, list) and len(n) == 2 and n[0] in STYLE + BLOCK:
            if not _valid_tree(n[1], depth + 1):
                return False
        else:
            return False
    return True


def evaluate(case):
    from lxml import etree

    from eyecite import annotate_citations
    from eyecite.utils import is_balanced_html

    res = Res()
    if case.get("kind") == "series":
        return _eval_series(case, res)
    tree = case["tree"]
    if not _valid_tree(tree):
        res.label("out-of-domain")
        return res
    src, plain = ser(tree)
    spans = [tuple(s) for s in case["spans"]]
    if any(not (0 <= a <= b <= len(plain)) for a, b in spans):
        res.label("out-of-domain")
        return res
    mode = case["mode"]
    res.label("mode:" + mode)
    if case.get("rep"):
        res.label("repetitive-text")
    if not case.get("dmp", True):
        import difflib

        ops = difflib.SequenceMatcher(a=plain, b=src, autojunk=False).get_opcodes()
        if any(op == "replace" for op, *_ in ops):
            res.label("difflib:text-against-tag-replacement")
        if any(op == "replace" and a2 - a1 == b2 - b1 and any(a1 < x < a2 for sp in spans for x in sp) for op, a1, a2, b1, b2 in ops):
            res.label("difflib:span-edge-inside-same-length-replacement")
    anns = [((a, b), f'<a id="{k}">', "</a>") for k, (a, b) in enumerate(spans)]
    out = call(annotate_citations, plain, iter(anns) if case.get("iter") else anns, source_text=src, unbalanced_tags=mode, use_dmp=case.get("dmp", True))
    res.label("engine:" + ("dmp" if case.get("dmp", True) else "difflib"))
    if isinstance(out, Raised):
        res.v(f"raises[{mode}]:" + out.bucket(), f"{out!r} src={src!r} spans={spans}")
        return res
    try:
        root = etree.fromstring(f"<div>{out}</div>")
    except etree.XMLSyntaxError as e:
        res.v(f"ill-formed[{mode}]", f"src={src!r} spans={spans} -> {out!r} ({e})")
        return res
    if "".join(root.itertext()) != plain:
        res.v(f"text-changed[{mode}]", f"src={src!r} spans={spans} -> {out!r}")
    if mode == "wrap":
        last = 0
        for (a, b), bf, af in sorted(anns):
            if a < last:
                if not case.get("dmp", True):
                    # The matching-block engine is not a minimal diff: it may treat the tail of the text as replaced by a
                    # tag, and the part of an overlapping annotation that is left after clipping then has no image in the
                    # source.  The statement promises presence for requested annotations, and eyecite documents that
                    # overlapping ones are clipped or dropped; for this engine only annotations that do not overlap an
                    # earlier one are required (under the exact alignment of the default engine the clipped remainder is too).
                    last = max(last, b)
                    continue
                a = last
            if a >= b:
                continue
            if bf not in out:
                res.v("wrap-annotation-missing", f"src={src!r} spans={spans}: {bf} absent from {out!r}")
            last = max(last, b)
    # non-trivial: some span's source slice (positions known from the generator) is unbalanced
    pos = []
    ser(tree, 0, pos)
    for a, b in spans:
        if a < b and not is_balanced_html(src[pos[a]: pos[b - 1] + 1]):
            res.nontrivial = True
            res.label("unbalanced-slice")
            break
    return res


def _eval_series(case, res):
    """One plain-text object annotated against a series of marked-up versions of equal length that exist one at a
    time (built, annotated in both modes, checked, dropped): every output must be well-formed with the text intact."""
    from lxml import etree

    from eyecite import annotate_citations

    words = case["words"]
    plain = " ".join(words)
    spans, at = [], 0
    for w in words:
        spans.append((at, at + len(w)))
        at += len(w) + 1
    anns = [(sp, f'<a id="{k}">', "</a>") for k, sp in enumerate(spans)]
    res.label("series")
    res.nontrivial = len(set(case["order"])) >= 2
    for step, j in enumerate(case["order"]):
        j %= len(words)
        tag = case["tags"][step % len(case["tags"])]
        src = "<p>" + " ".join(f"<{tag}>{w}</{tag}>" if k == j else w for k, w in enumerate(words)) + "</p>"
        for mode in ("skip", "wrap"):
            out = call(annotate_citations, plain, anns, source_text=src, unbalanced_tags=mode, use_dmp=case.get("dmp", True))
            if isinstance(out, Raised):
                res.v(f"raises[{mode}]:" + out.bucket(), f"series step {step}: {out!r} src={src!r}")
                return res
            try:
                root = etree.fromstring(f"<div>{out}</div>")
            except etree.XMLSyntaxError as e:
                res.v(f"ill-formed[{mode}]", f"series step {step} of {case['order']}: src={src!r} -> {out!r} ({e})")
                return res
            if "".join(root.itertext()) != plain:
                res.v(f"text-changed[{mode}]", f"series step {step}: src={src!r} -> {out!r}")
                return res
            if mode == "wrap" and any(bf not in out for _, bf, _ in anns):
                res.v("wrap-annotation-missing", f"series step {step} of {case['order']}: src={src!r} -> {out!r}")
                return res
            del out, root
        del src
    return res


@st.composite
def _series(draw):
    words = draw(st.lists(st.sampled_from(["11111", "22222", "33333", "44444", "55555", "ABCD", "1 U.S. 1", "AB", "A"]), min_size=3, max_size=7))
    return {"kind": "series", "words": words, "order": draw(st.lists(st.integers(0, 6), min_size=2, max_size=8)),
            "tags": draw(st.lists(st.sampled_from(["u", "i", "b", "s"]), min_size=1, max_size=3)), "dmp": draw(st.integers(0, 3)) != 0}


_text = st.lists(st.sampled_from(TXT), min_size=1, max_size=8).map("".join)
_long_text = st.lists(st.sampled_from(TXT), min_size=30, max_size=60).map("".join)


def _mk_tree(text):
    return st.recursive(
        st.lists(text, min_size=1, max_size=2),
        lambda kids: st.lists(
            st.one_of(text, text, st.tuples(st.sampled_from(STYLE + STYLE + BLOCK), kids).map(list)), min_size=1, max_size=4),
        max_leaves=12,
    )


_tree = _mk_tree(_text)
# repetitive text (two-letter alphabet, repeated blocks): the matching-block engine aligns a repeated block with a
# later copy and is left with text-against-tag replacements
_rep_text = st.one_of(st.lists(st.sampled_from("AB"), min_size=1, max_size=8).map("".join),
                      st.sampled_from(["ABCD", "ABCDABCD", "AB", "ABAB", "A A ", "1 U.S. 1"]))
_rep_tree = _mk_tree(_rep_text)


@st.composite
def _case(draw, mode):
    rep = draw(st.integers(0, 3)) == 0
    tree = draw(_rep_tree if rep else _tree)
    crafted = draw(st.integers(0, 9)) == 0
    if crafted:
        # W <T> W W </T> with |W| = len("</T>"): the matching-block engine aligns the leading "WW" of the text with the
        # element's content and is left with the last W against the closing tag - a replacement of equal lengths
        tag = draw(st.sampled_from(STYLE + BLOCK))
        w = "".join(draw(st.lists(st.sampled_from("ABCD 1."), min_size=len(tag) + 3, max_size=len(tag) + 3)))
        core = [w, [tag, [w * draw(st.sampled_from([2, 2, 3]))]]]
        shape = draw(st.integers(0, 3))
        tree = core if shape == 0 else [["div", core]] if shape == 1 else list(tree[:1]) + core if shape == 2 else core + list(tree[:1])
        rep = True
    if draw(st.integers(0, 5)) == 0:
        # now and then a long text node: the document grows beyond 100 characters
        tree = list(tree)
        tree.insert(draw(st.integers(0, len(tree))), draw(_long_text))
    src, plain = ser(tree)
    n = len(plain)
    spans = []
    for _ in range(draw(st.integers(1, 5))):
        a = draw(st.integers(0, n))
        b = draw(st.integers(a, min(n, a + draw(st.sampled_from([12, 12, 12, 40])))))
        spans.append([a, b])
    return {"tree": tree, "spans": spans, "mode": mode, "iter": draw(st.integers(0, 4)) == 0,
            "dmp": draw(st.integers(0, 2)) != 0 and not (crafted and draw(st.booleans())), "rep": rep}


def phases(tier):
    n = 20000 if tier == "quick" else 500000
    return [Phase("trees-skip", "gen", strategy=lambda: _case("skip"), n=n // 2), Phase("trees-wrap", "gen", strategy=lambda: _case("wrap"), n=n // 2),
            Phase("series-same-plain-object", "gen", strategy=_series, n=n // 10)]
