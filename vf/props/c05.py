"""C05 - unambiguous references are grouped with the case they refer to (scenario model)."""
import itertools

from hypothesis import strategies as st

from vf import tk
from vf.core import Phase, Raised, Res, call

ID = "C05"
RULE = (
    "scenario documents rendered from a model that knows the intended antecedent of every reference: 1-5 synthetic "
    "cases (syllable party names, pairwise non-overlapping; colliding or distinct (reporter, volume), reporter "
    "spelling variants) and a statement list over full / short / short+antecedent / supra / id / id+pin (inside or "
    "outside [page, page+150]) / reference / filler; scenarios with 2 cases and <= 4 statements are enumerated "
    "exhaustively (colliding and distinct variants), larger ones are drawn by Hypothesis. Oracle: extraction has the "
    "written shape (else counted as an extraction discrepancy, not judged here); one resource per distinct case; every "
    "reference the model classifies unambiguous is listed under its intended case; id. with an impossible pin or after "
    "an unresolved citation is under no resource. Non-trivial: >= 2 cases and >= 2 reference kinds, or a "
    "(reporter, volume) collision among cited cases; distinct = distinct scenario"
)
ASSUMPTIONS = [
    "every case is cited in full before it is referred to; two bare id. statements are never adjacent (second gets a lead-in word)",
    "party names are synthetic, valid reference names, never reporter strings or stop words",
]
SYL = ["ka", "lo", "mi", "ren", "tov", "bar", "zen", "qua", "dri", "fel", "gor", "hup", "jin", "vas", "wim", "yor", "plu", "sha", "cre", "bo"]
REPS = [("U.S.", "U.S."), ("F.2d", "F.2d"), ("F.3d", "F.3d"), ("S. Ct.", "S. Ct."), ("A.2d", "A.2d"), ("N.E.2d", "N.E.2d"),
        ("U. S.", "U.S."), ("F. 2d", "F.2d"), ("P.3d", "P.3d"), ("So. 2d", "So. 2d")]
FILL = ["The court considered the matter at length.", "That reasoning is persuasive.", "We disagree with the dissent.",
        "Nothing in the record suggests otherwise."]
LEADS = ["See ", "", "In "]
KINDS = {"full": "FullCaseCitation", "short": "ShortCaseCitation", "supra": "SupraCitation", "id": "IdCitation", "ref": "ReferenceCitation"}


def setup(tier):
    tk.get(("ac",))


# ------------------------------------------------------------------ rendering + model


def render(case):
    """Return (text, expect) where expect[i] = (kind, intended case index or None, unambiguous?)."""
    cases = case["cases"]
    cited = []
    expect = []
    parts = []
    last_res = None
    prev_bare_id = False
    ref_kinds = set()
    collision = False
    for si, s in enumerate(case["stmts"]):
        k = s["k"]
        nxt = case["stmts"][si + 1]["k"] if si + 1 < len(case["stmts"]) else None
        if k not in ("fill", "longfill") and k not in ("id", "idpin") and k != "full" and (s["c"] % len(cases)) not in cited:
            k = "full"  # precondition of the statement: first cited in full
        if k in ("id", "idpin") and not cited:
            k = "fill"
        bare = False
        if k == "full":
            i = s["c"] % len(cases)
            c = cases[i]
            pin = f", {c['page'] + s.get('pin', 0) % 20}" if s.get("pin", 0) % 3 == 0 else ""
            t = f"{LEADS[s.get('lead', 0) % 3]}{c['pl']} v. {c['df']}, {c['vol']} {c['rep']} {c['page']}{pin} ({c['year']})."
            if s.get("join") == 0 and nxt == "full":
                # a string cite: no year of its own, a comma, and the next case follows in the same sentence
                t = t[:t.rindex(" (")] + ","
            if i not in cited:
                cited.append(i)
            same = [x for x in cited if (cases[x]["canon"], cases[x]["vol"]) == (c["canon"], c["vol"])]
            collision = collision or len(same) > 1
            expect.append(("full", i))
            last_res = i
        elif k == "fill":
            t = FILL[s.get("i", 0) % len(FILL)]
        elif k == "longfill":
            # several hundred characters of ordinary prose (no citation, stop word, section sign or line break):
            # the next reference sits beyond the 300-character backward scan window
            n = 7 + s.get("i", 0) % 4
            t = " ".join(FILL[(s.get("i", 0) + j) % len(FILL)] for j in range(n)) + " " + "Z" * (s.get("pin", 0) % 9) + "."
        else:
            if k in ("short", "shortante", "supra", "ref"):
                i = s["c"] % len(cases)
                c = cases[i]
                pin = c["page"] + s.get("pin", 0) % 100
                party = c["pl"] if s.get("party", 0) % 2 == 0 else c["df"]
            if k in ("short", "shortante"):
                ante = k == "shortante"
                t = f"{(party + ', ') if ante else 'And '}{c['vol']} {c['rep']}{',' if s.get('comma') else ''} at {pin}."
                same = [x for x in cited if (cases[x]["canon"], cases[x]["vol"]) == (c["canon"], c["vol"])]
                unamb = len(same) == 1 or ante
                expect.append(("short", i if unamb else None))
                last_res = i if unamb else None
                ref_kinds.add("short")
            elif k == "supra":
                t = f"{party}, supra, at {pin}."
                expect.append(("supra", i))
                last_res = i
                ref_kinds.add("supra")
            elif k == "ref":
                t = f"In {party} at {pin} the court agreed."
                expect.append(("ref", i))
                last_res = i
                ref_kinds.add("ref")
            elif k == "id":
                t = "Id."
                bare = True
                expect.append(("id", last_res))
                ref_kinds.add("id")
            else:  # idpin
                base = cases[last_res]["page"] if last_res is not None else 100
                mode = s.get("pin", 0) % 5
                if mode <= 2:
                    p = base + (s.get("pin", 0) * 7) % 151
                elif mode == 3:
                    p = base + 151 + s.get("pin", 0) % 300
                else:
                    p = base - 1 - s.get("pin", 0) % 5 if base > 6 else base + 151
                ok = last_res is not None and base <= p <= base + 150
                # page ranges, written in full or with the customary abbreviated end ("at 215-16"): the range starts at p
                rng = s.get("range", 0) % 4
                ptxt = str(p)
                if rng == 1 and p >= 1:
                    ptxt = f"{p}-{p + 1 + s.get('pin', 0) % 3}"
                elif rng == 2 and p >= 100 and (p % 100) < 97:
                    ptxt = f"{p}-{(p + 1 + s.get('pin', 0) % 2) % 100:02d}"
                t = f"Id. at {ptxt}."
                expect.append(("id", last_res if ok else None))
                last_res = last_res if ok else None
                ref_kinds.add("id")
            if k in ("id", "idpin") and prev_bare_id:
                t = "Thus, " + t[0].lower() + t[1:]
        prev_bare_id = bare
        parts.append(t)
    return " ".join(parts), expect, (len(cited) >= 2 and len(ref_kinds) >= 2) or collision


def evaluate(case):
    from eyecite import get_citations, resolve_citations
    from eyecite.models import FullCaseCitation

    res = Res()
    text, expect, nontrivial = render(case)
    res.nontrivial = nontrivial
    cs = call(get_citations, text)
    if isinstance(cs, Raised):
        res.label("raised")
        return res
    if len(cs) != len(expect) or any(type(c).__name__ != KINDS[e[0]] for c, e in zip(cs, expect)):
        res.label("extraction-shape-mismatch")
        res.nontrivial = False
        return res
    out = call(resolve_citations, cs)
    if isinstance(out, Raised):
        res.label("raised")
        return res
    owner = {}
    for li, (rsrc, lst) in enumerate(out.items()):
        for c in lst:
            owner[id(c)] = li
    case_res = {}
    for c, e in zip(cs, expect):
        if e[0] != "full":
            continue
        rs = owner.get(id(c))
        if rs is None:
            res.v("full-citation-unresolved", f"{c!r} in {text!r}")
            continue
        if e[1] in case_res and case_res[e[1]] != rs:
            res.v("two-resources-for-one-case", f"case {e[1]} in {text!r}")
        case_res.setdefault(e[1], rs)
    if len(set(case_res.values())) != len(case_res):
        res.v("distinct-cases-share-a-resource", f"{text!r}")
    for c, e in zip(cs, expect):
        if e[0] == "full":
            continue
        got = owner.get(id(c))
        if e[1] is None:
            if e[0] == "id":
                res.label("id-expected-left-out")
                if got is not None:
                    res.v("id-should-be-left-out", f"{c!r} attached in {text!r}")
        else:
            res.label(f"unambiguous-{e[0]}")
            if e[1] not in case_res:
                continue
            if got is None:
                res.v(f"{e[0]}-unresolved", f"{c!r} (intended case {e[1]}) in {text!r}")
            elif got != case_res[e[1]]:
                res.v(f"{e[0]}-wrong-case", f"{c!r} (intended case {e[1]}) in {text!r}")
    return res


# ------------------------------------------------------------------ generators


ODD_NAMES = ["O'Brien", "D'Amato", "Pe\u00f1a", "M\u00fcller", "Wal-Mart", "McDonald", "Nu\u00f1ez", "S\u00f8rensen", "Stra\u00dfer", "O\u2019Connor", "Garc\u00eda",
             "Kovi\u0107", "DeShaney", "L'Enfant"]


@st.composite
def _names(draw, n):
    used = []
    while len(used) < n:
        if draw(st.integers(0, 4)) == 0:
            # real-world shapes: apostrophes, hyphens, inner capitals, accented letters (first letter ASCII, as the
            # short-form antecedent pattern requires)
            name = draw(st.sampled_from(ODD_NAMES))
        else:
            name = "".join(draw(st.lists(st.sampled_from(SYL), min_size=2, max_size=3))).capitalize()
        if len(name) > 3 and all(name not in u and u not in name for u in used):
            used.append(name)
    return used


@st.composite
def scenario(draw, max_cases=5, max_stmts=9):
    k = draw(st.integers(1, max_cases))
    names = draw(_names(2 * k))
    cases = []
    for i in range(k):
        rep, canon = draw(st.sampled_from(REPS))
        vol = draw(st.sampled_from([10, 10, 20, 30]) | st.integers(1, 500))
        page = draw(st.integers(1, 900))
        while any((c["canon"], c["vol"], c["page"]) == (canon, vol, page) for c in cases):
            page += 1
        cases.append({"pl": names[2 * i], "df": names[2 * i + 1], "rep": rep, "canon": canon, "vol": vol, "page": page, "year": draw(st.integers(1950, 2020))})
    stmt = st.fixed_dictionaries({
        "k": st.sampled_from(["full", "full", "short", "shortante", "supra", "id", "idpin", "fill", "ref", "longfill"]),
        "c": st.integers(0, 4), "pin": st.integers(0, 400), "party": st.integers(0, 1), "lead": st.integers(0, 2),
        "comma": st.booleans(), "i": st.integers(0, 3), "range": st.integers(0, 3), "join": st.integers(0, 3),
    })
    stmts = draw(st.lists(stmt, min_size=1, max_size=max_stmts))
    return {"cases": cases, "stmts": stmts}


def scenario_text():
    return scenario().map(lambda c: render(c)[0])


SMALL_ALPHA = [
    {"k": "full", "c": 0}, {"k": "full", "c": 1}, {"k": "full", "c": 0, "join": 0}, {"k": "short", "c": 0}, {"k": "short", "c": 1}, {"k": "shortante", "c": 0},
    {"k": "shortante", "c": 1, "party": 1}, {"k": "supra", "c": 0}, {"k": "supra", "c": 1, "party": 1}, {"k": "id"},
    {"k": "idpin", "pin": 0}, {"k": "idpin", "pin": 3}, {"k": "idpin", "pin": 5, "range": 2}, {"k": "ref", "c": 0}, {"k": "ref", "c": 1, "party": 1}, {"k": "fill"},
]


def _small_items(maxlen):
    variants = [
        [{"pl": "Kalomi", "df": "Rentov", "rep": "U.S.", "canon": "U.S.", "vol": 10, "page": 100, "year": 1999},
         {"pl": "Zenqua", "df": "Drifel", "rep": "U. S.", "canon": "U.S.", "vol": 10, "page": 300, "year": 2001}],
        [{"pl": "Kalomi", "df": "Rentov", "rep": "U.S.", "canon": "U.S.", "vol": 10, "page": 100, "year": 1999},
         {"pl": "Zenqua", "df": "Drifel", "rep": "F.2d", "canon": "F.2d", "vol": 30, "page": 300, "year": 2001}],
    ]
    items = []
    for cases in variants:
        for L in range(1, maxlen + 1):
            for combo in itertools.product(range(len(SMALL_ALPHA)), repeat=L):
                cited = set()
                ok = True
                for a in combo:
                    s = SMALL_ALPHA[a]
                    if s["k"] == "full":
                        cited.add(s["c"])
                    elif s["k"] in ("id", "idpin"):
                        ok = ok and bool(cited)
                    elif s["k"] != "fill":
                        ok = ok and s["c"] in cited
                    if not ok:
                        break
                if ok and cited:
                    items.append({"cases": cases, "stmts": [dict(SMALL_ALPHA[a]) for a in combo]})
    return items


def phases(tier):
    n = 20000 if tier == "quick" else 400000
    maxlen = 5 if tier == "quick" else 6
    return [
        Phase("small-scenarios", "enum", items=lambda: _small_items(maxlen), exhaustive=True),
        Phase("scenarios", "gen", strategy=scenario, n=n),
    ]
