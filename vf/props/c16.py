"""C16 - citation equality identifies the cited document, not its spelling or context."""
import itertools

from hypothesis import strategies as st

from vf import tk
from vf.core import Phase, Raised, Res, call
from vf.gen import inventory as inv
from vf.gen import legal
from vf.resolver_engine import independent_equal

ID = "C16"
RULE = (
    "(a) exhaustive: every plain-shape case-reporter variation with exactly one candidate edition, written with rich "
    "context (parties, pin cite, year, parenthetical) against its canonical edition written bare: ==, hash and Resource "
    "must agree, and the corrected citation must re-parse to an equal citation and be a fixed point; (b) pools of "
    "generated citations (several reporters and spellings x volumes x pages x contexts x kinds incl. placeholder pages, "
    "id., unknown, law, journal, short): for all pairs, == must coincide with an independent equality (same class, "
    "volume, page, corrected reporter, page not a placeholder; law/journal: groups and edition sets), be reflexive, "
    "symmetric, transitive and consistent with hash and Resource; identity-only kinds equal only themselves; in half of "
    "the pools up to six citations that were already hashed and compared are cloned (copy, deepcopy, pickle round trip) "
    "and the clones join the pool as further citation objects. "
    "Non-trivial: (a) a variation that parses to the expected single reading; (b) a pool containing an equal pair that "
    "differs in spelling or context; distinct = distinct case"
)
ASSUMPTIONS = [
    "variations whose written form is read differently (a second pattern matches the same characters, e.g. comma-suffixed variations) are excluded by the statement and counted",
    "supra and reference citations are outside the statement and not pooled",
]


_TOK = {"name": "ac"}


def setup(tier):
    tk.get(("ac", "hs", "ref"))


def _get(text):
    from eyecite import get_citations

    return call(get_citations, text, tokenizer=tk.get((_TOK["name"],))[_TOK["name"]])


def _one_full(text, reporter=None):
    from eyecite.models import FullCaseCitation

    cs = _get(text)
    if isinstance(cs, Raised):
        return None
    fulls = [c for c in cs if isinstance(c, FullCaseCitation)]
    if len(fulls) != 1:
        return None
    if reporter is not None and fulls[0].groups.get("reporter") != reporter:
        return None
    return fulls[0]


def eval_variation(case):
    from eyecite.models import Resource

    res = Res()
    v, e = case["variation"], case["edition"]
    vol, page = case.get("volume", "12"), case.get("page", "345")
    a = _one_full(f"See Foo v. Bar, {vol} {v} {page}, {int(page) + 5} (1999) (en banc).", v)
    b = _one_full(f"{vol} {e} {page}", e)
    if a is None or b is None:
        # Whether the two spellings are read as written is judged with the unfiltered reference tokenizer, not with the
        # tokenizer under test: a spelling that only the latter does not find yields no citation that could be equal
        # to the canonical one.
        used = _TOK["name"]
        _TOK["name"] = "ref"
        try:
            ra = _one_full(f"See Foo v. Bar, {vol} {v} {page}, {int(page) + 5} (1999) (en banc).", v)
            rb = _one_full(f"{vol} {e} {page}", e)
        finally:
            _TOK["name"] = used
        if ra is not None and rb is not None:
            res.nontrivial = True
            res.v("spelling-not-extracted", f"{v!r} / {e!r}: the reference tokenizer reads both as written, tokenizer {used!r} reads {'neither' if a is None and b is None else 'only one'}")
            return res
        res.label("excluded:not-read-as-written")
        return res
    res.nontrivial = True
    # the enumeration comes from reporters-db: this spelling has exactly one candidate edition there
    cand = {(x.short_name, x.reporter.short_name, x.reporter.name) for x in (a.exact_editions or a.variation_editions)}
    if len(cand) != 1 or next(iter(cand))[0] != e:
        res.v("variation-candidates-differ-from-database", f"{v!r}: candidates {sorted(cand)}, reporters-db maps it to the single edition {e!r}")
    if a.corrected_reporter() != e:
        res.v("variation-not-normalised", f"{v!r} -> corrected_reporter {a.corrected_reporter()!r}, database edition {e!r}")
    if not (a == b and b == a):
        res.v("variation-not-equal-to-canonical", f"{a!r} != {b!r}")
    if hash(a) != hash(b):
        res.v("variation-hash-differs", f"{a!r} vs {b!r}")
    if not (Resource(a) == Resource(b) and hash(Resource(a)) == hash(Resource(b))):
        res.v("variation-resource-differs", f"{a!r} vs {b!r}")
    # round trip / fixed point
    for c in (a, b):
        text2 = c.corrected_citation()
        c2 = _one_full(text2)
        cs2 = _get(text2)
        if c2 is None or isinstance(cs2, Raised) or len(cs2) != 1:
            res.v("corrected-citation-does-not-reparse", f"{c!r}: corrected_citation() {text2!r} -> {cs2!r}")
            continue
        if not (c2 == c and hash(c2) == hash(c)):
            res.v("reparse-not-equal", f"{c!r}: {text2!r} re-parses to {c2!r}")
        if c2.corrected_citation() != text2:
            res.v("corrected-citation-not-a-fixed-point", f"{text2!r} -> {c2.corrected_citation()!r}")
    return res


def _read_as_written(c, w):
    g = c.groups
    return (g.get("volume"), g.get("reporter"), g.get("page")) == (w[0], w[1], w[2])


def _ambiguous(r):
    return len({(e.reporter_key, e.reporter_name, e.name) for e, _ in inv.users(r)}) > 1


TEMPLATES = [
    "{v} {r} {p}",
    "Foo v. Bar, {v} {r} {p} ({y})",
    "See Roe v. Wade, {v} {r} {p}, {pin} (4th Cir. {y}) (overruling nothing)",
    "In re Smith, {v} {r} {p}, {pin}",
    "{v} {r}, {p} ({y})",
    "Lissner v. Test, {v} {r} {p} [{y}]",
]
SHORT_T = ["{v} {r} at {p}", "Bar, {v} {r}, at {p}", "Foo, {v} {r} at {p} (noting x)"]
OTHER = ["Id.", "Id. at 5", "ibid.", "see §99 of it", "§ 5", "Mass. Gen. Laws ch. 1, § 2", "Mass. Gen. Laws ch. 1, § 3", "42 U.S.C. § 1983", "42 U. S. C. § 1983",
         "1 Minn. L. Rev. 1", "1 Minn. L. Rev. 1 (1999)", "1 Minn. L. Rev. 2", "1 Minn. L. Rev. ___", "2 Minn. L. Rev. 1", "1 Stat. 2", "1 Stat. 2 (1790)"]


def eval_pool(case):
    from eyecite.models import (CaseCitation, FullCaseCitation, FullCitation, IdCitation, Resource, ShortCaseCitation,
                                UnknownCitation)

    res = Res()
    cites = []
    written = []
    for item in case["texts"]:
        text, w = (item["t"], item.get("w")) if isinstance(item, dict) else (item, None)
        cs = _get(text)
        if isinstance(cs, Raised) or not cs:
            continue
        # the citation the snippet was written for is the last non-reference one
        c = [x for x in cs if type(x).__name__ != "ReferenceCitation"]
        if c:
            cites.append((text, c[-1]))
            written.append(tuple(w) if w else None)
    how = case.get("clone")
    if how:
        # Citations travel: results are copied, cached and sent between processes.  A clone of a citation that has
        # already been hashed and compared is another citation object with the same content, so it is subject to the
        # same laws (equal to the original iff the original's kind and page allow equality with another citation).
        import copy
        import pickle

        f = {"copy": copy.copy, "deep": copy.deepcopy, "pickle": lambda x: pickle.loads(pickle.dumps(x))}[how]
        for text, c in list(cites[: 6]):
            call(lambda: (hash(c), c == c, {c: 1}))
            d = call(f, c)
            if isinstance(d, Raised):
                res.v(f"clone-raises:{how}:" + d.bucket(), f"{c!r}")
                continue
            cites.append((text + f" [{how} of the above]", d))
            written.append(None)
        res.label("clones:" + how)
    interesting = False
    n = len(cites)
    eq = [[False] * n for _ in range(n)]
    for i in range(n):
        for j in range(n):
            a, b = cites[i][1], cites[j][1]
            r = call(lambda: a == b)
            if isinstance(r, Raised):
                res.v("eq-raises:" + r.bucket(), f"{a!r} == {b!r}")
                return res
            eq[i][j] = bool(r)
    for i in range(n):
        ti, a = cites[i]
        if not eq[i][i]:
            res.v(f"not-reflexive:{type(a).__name__}", f"{a!r}")
        for j in range(n):
            tj, b = cites[j]
            if i == j:
                continue
            if eq[i][j] != eq[j][i]:
                res.v("not-symmetric", f"{a!r} vs {b!r}")
            # writer-based: the same volume, reporter string and page written in two contexts is the same document
            if written[i] is not None and written[i] == written[j] and not set(written[i][2]) <= {"_"} and not eq[i][j] \
                    and type(a) is type(b) and _read_as_written(a, written[i]) and _read_as_written(b, written[j]):
                res.v(f"same-written-citation-not-equal:{type(a).__name__}", f"{ti!r} -> {a!r} vs {tj!r} -> {b!r}")
            if eq[i][j] and hash(a) != hash(b):
                res.v("equal-but-hash-differs", f"{a!r} vs {b!r}")
            if eq[i][j] and type(a) is not type(b):
                res.v(f"equal-across-kinds:{type(a).__name__}/{type(b).__name__}", f"{a!r} == {b!r}")
            if isinstance(a, (CaseCitation, FullCitation)) and isinstance(b, (CaseCitation, FullCitation)):
                exp = independent_equal(a, b)
                if exp and not eq[i][j]:
                    res.v(f"same-document-not-equal:{type(a).__name__}", f"{ti!r} -> {a!r} vs {tj!r} -> {b!r}")
                elif eq[i][j] and not exp:
                    res.v(f"different-documents-equal:{type(a).__name__}", f"{ti!r} -> {a!r} vs {tj!r} -> {b!r}")
                if exp and ti != tj:
                    interesting = True
                if isinstance(a, FullCitation) and isinstance(b, FullCitation):
                    ra = call(lambda: Resource(a) == Resource(b) and hash(Resource(a)) == hash(Resource(b)))
                    if not isinstance(ra, Raised) and bool(ra) != eq[i][j]:
                        res.v("resource-equality-differs-from-citation-equality", f"{a!r} vs {b!r}")
            elif isinstance(a, (IdCitation, UnknownCitation)) or isinstance(b, (IdCitation, UnknownCitation)):
                if eq[i][j]:
                    res.v(f"identity-kind-equal-to-other:{type(a).__name__}", f"{ti!r} -> {a!r} == {tj!r} -> {b!r}")
            for k in range(n):
                if eq[i][j] and eq[j][k] and not eq[i][k]:
                    res.v("not-transitive", f"{a!r}, {b!r}, {cites[k][1]!r}")
    res.nontrivial = interesting
    return res


def evaluate(case):
    _TOK["name"] = case.get("tokenizer", "ac")
    try:
        return _evaluate(case)
    finally:
        _TOK["name"] = "ac"


def _evaluate(case):
    if case.get("kind") == "variation":
        return eval_variation(case)
    if case.get("kind") == "pattern-pool":
        texts = _pattern_pool(case["idx"])
        if len(texts) < 2:
            res = Res()
            res.label("pattern-pool:single-string")
            return res
        res = eval_pool({"texts": texts, "clone": [None, "copy", "deep", "pickle"][case["idx"] % 4]})
        res.label("pattern-pool")
        res.nontrivial = True
        res.key = ("pattern-pool", case["idx"])
        return res
    return eval_pool(case)


def _pattern_pool(idx):
    """All structurally different strings of one full-citation extractor's pattern (page with/without suffix, roman,
    placeholder, optional parts ...), each twice in different contexts: a pool in which == must follow the groups."""
    from eyecite.tokenizers import EXTRACTORS

    from vf.gen import regexgen

    if idx >= len(EXTRACTORS) - 5:
        return []
    e = EXTRACTORS[idx]
    out = []
    seen = set()
    for cand in regexgen.alternatives(e.regex, e.flags, limit=40):
        m = e.compiled_regex.search(cand)
        if not m:
            continue
        core = m.group(1).strip()
        if core and core not in seen:
            seen.add(core)
            out.append(core)
            out.append(f"Foo v. Bar, {core} (1999)")
    return out[:24]


@st.composite
def _pool(draw):
    # a few reporters, each in several spellings that the database maps to one edition
    reps = draw(st.lists(st.sampled_from([
        ["U.S.", "U. S."], ["F.2d", "F. 2d", "F.2d."], ["S. Ct.", "S.Ct."], ["A.2d", "A. 2d"], ["Cal.App.4th", "Cal. App. 4th"],
        ["N.E.2d", "N. E. 2d", "N.E. 2d"], ["Wash.", "Wash."], ["Rob.", "Rob."], ["So. 2d", "So.2d"], ["Thompson", "Thompson"],
        ["S.C.", "S.C."], ["Mon.", "Mon."], ["Cust. Ct.", "Cust. Ct."], ["Hill", "Hill"],
    ]), min_size=1, max_size=3))
    if draw(st.integers(0, 3)) == 0:
        v, e = draw(st.sampled_from(inv.single_candidate_variations()))
        reps.append([e, v])
    vols = draw(st.lists(st.sampled_from(["1", "12", "550", "999"]), min_size=1, max_size=2, unique=True))
    pages = draw(st.lists(st.sampled_from(["1", "200", "345", "___", "_"]), min_size=1, max_size=2, unique=True))
    texts = []
    for _ in range(draw(st.integers(8, 24))):
        k = draw(st.integers(0, 9))
        r = draw(st.sampled_from(draw(st.sampled_from(reps))))
        v, p = draw(st.sampled_from(vols)), draw(st.sampled_from(pages))
        y = draw(st.sampled_from(["1999", "1950", "2005"]))
        pin = str(draw(st.integers(1, 400)))
        if k < 6:
            tmpl = draw(st.sampled_from(TEMPLATES))
            texts.append({"t": tmpl.format(v=v, r=r, p=p, y=y, pin=pin), "w": [v, r, p, "full", y if ("{y}" in tmpl and _ambiguous(r)) else ""]})
        elif k < 8:
            p2 = p if p.isdigit() else "7"
            texts.append({"t": draw(st.sampled_from(SHORT_T)).format(v=v, r=r, p=p2), "w": [v, r, p2, "short"]})
        elif k == 8 and draw(st.booleans()):
            # the bare citation touching typographic characters (context must not matter)
            q = draw(st.sampled_from([("“", "”"), ("—", ""), ("", "—x"), ("‘", "’"), ("(", ")")]))
            texts.append({"t": f"{q[0]}{v} {r} {p}{q[1]}", "w": [v, r, p, "full", ""]})
        else:
            texts.append(draw(st.sampled_from(OTHER)))
    return {"kind": "pool", "texts": texts, "tokenizer": draw(st.sampled_from(["ac", "ac", "hs"])),
            "clone": draw(st.sampled_from([None, None, "copy", "deep", "pickle"]))}


def _pattern_pool_items():
    from eyecite.tokenizers import EXTRACTORS

    return [{"kind": "pattern-pool", "idx": i} for i, e in enumerate(EXTRACTORS[:-5]) if not e.extra.get("short")]


def phases(tier):
    n = 4000 if tier == "quick" else 100000
    combos = [("12", "345")] if tier == "quick" else [("12", "345"), ("1", "1"), ("99", "1000")]
    return [
        Phase("variations", "enum", exhaustive=True,
              items=lambda: [{"kind": "variation", "variation": v, "edition": e, "volume": vol, "page": pg} for v, e in inv.single_candidate_variations() for vol, pg in combos]),
        Phase("pattern-pools", "enum", exhaustive=True, items=_pattern_pool_items),
        Phase("pools", "gen", strategy=_pool, n=n),
    ]
