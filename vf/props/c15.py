"""C15 - extraction is a pure function of its input (processes / hash seeds, call histories, thread schedules)."""
import json
import os
import shutil
import subprocess
import sys
import threading
import zlib
from collections import defaultdict

from hypothesis import strategies as st

from vf import tk
from vf.core import HOME, HarnessError, Phase, Raised, Res, call, case_hash
from vf.gen import inventory as inv
from vf.gen import legal, markup
from vf.ser import ser

ID = "C15"
RULE = (
    "(a) processes: a Hypothesis-generated corpus (grammar documents, every tie-prone core from the reporter inventory "
    "in context, marked-up documents) is extracted in fresh interpreters started with different PYTHONHASHSEED values "
    "(quick 4, thorough 8; ac tokenizer for all, hs/ref on a subset); all canonical serialisations (class, spans, "
    "groups, metadata, ordered candidate editions, guess, year, value hashes) of one (text, options) must be identical. "
    "(b) histories: Hypothesis-drawn operation lists extract(i, options) over a small text pool in any order, some "
    "operations using a custom AhocorasickTokenizer built on the spot from a selection of the stock extractor objects; every "
    "result ever returned is re-serialised after every step and compared with its first serialisation, and equal "
    "(text, options) must give equal results at every position. (c) threads: k threads each extracting its own text "
    "with the shared default tokenizer under a harness-owned cooperative scheduler (sys.settrace line events in "
    "eyecite frames, baton passed according to a Hypothesis-drawn list of run lengths) plus a free-running stress "
    "variant, a single-preemption sweep over the first (cold) call on a geometric grid and an EXHAUSTIVE single-preemption "
    "sweep (every line event of thread A's extraction) over pairs of small texts that use the same extractors on the warm "
    "default tokenizer; results must equal the sequential ones. Non-trivial: a text with >= 1 citation compared across >= 2 "
    "seeds / positions / schedules, or a tie-prone text; distinct = distinct (text, options) / history / schedule"
)
ASSUMPTIONS = [
    "schedules are sampled at line granularity inside eyecite's Python frames; preemption inside C extensions is not modelled",
    "hash seeds are sampled, not enumerated",
]
G = {}


def setup(tier):
    tk.get(("ac",))
    G["ties"] = tie_prone_texts()  # computed once in the parent; the forked workers inherit it


# --------------------------------------------------------------------------- tie-prone cores


def tie_prone_texts():
    """Reporter strings for which two extractors match the same characters with non-mergeable tokens."""
    ac = tk.get(("ac",))["ac"]
    out = []
    cores = [c for R in inv.all_strings() for c in (f"12 {R} 345", f"12 {R}, 345", f"12 {R} at 345")]
    cores += [ex for ex, _ in inv.examples()]  # statutes, journals and special templates tie too
    if True:
        for core in cores:
            toks = call(lambda: list(ac.extract_tokens(" " + core + " ")))
            if isinstance(toks, Raised):
                continue
            by = defaultdict(list)
            for t in toks:
                by[(t.start, t.end)].append(t)
            for sp, l in by.items():
                if len(l) > 1:
                    a = l[0]
                    if any(not (type(a) is type(b) and a.groups == b.groups and getattr(a, "short", 0) == getattr(b, "short", 0)) for b in l[1:]):
                        out.append(core)
                        break
    extra = ["foo supra,§, bar", "see id.§ x", "§ v. x", "1 Rob. 1", "5 Johnson 0", "12 Wash. 345 (1899)", "1 CCH Unemployment Ins. Rep. 1"]
    return sorted(set(out)) + extra


# --------------------------------------------------------------------------- (a) processes


def _draw_corpus(n_docs, n_markup, seed):
    import hypothesis
    from hypothesis import HealthCheck, Phase as HP, given, settings

    docs = []
    strat = st.one_of(
        legal.document(hostile=False, multibyte=True).map(lambda t: {"text": t}),
        legal.document(hostile=True).map(lambda t: {"text": t}),
    )

    def collect(strategy, n, sd, sink):
        @hypothesis.seed(sd)
        @settings(max_examples=n, database=None, deadline=None, suppress_health_check=list(HealthCheck), phases=[HP.generate])
        @given(strategy)
        def t(x):
            sink.append(x)

        t()

    collect(strat, n_docs, seed * 31 + 7, docs)
    mk = []
    collect(markup.marked_up(), n_markup, seed * 31 + 11, mk)
    return docs, mk


def process_phase(tier):
    def run(total, seed):
        import time

        n_docs, n_markup, seeds = (1600, 200, [0, 1, 2, "r"]) if tier == "quick" else (16000, 2000, [0, 1, 2, 3, 4, 7, 11, "r"])
        seeds = [s if s != "r" else (seed * 7919 + 13) % 4294967295 for s in seeds]
        ties = G.get("ties") or tie_prone_texts()
        docs, mk = _draw_corpus(n_docs, n_markup, seed)
        corpus = []
        ctx = [("", ""), ("See ", "."), ("Foo v. Bar, ", " (1999)."), ("(", ")")]
        for i, core in enumerate(ties):
            for pre, post in ctx:
                corpus.append({"text": pre + core + post, "tie": True})
        for d in docs:
            corpus.append(d)
            if zlib.crc32(d["text"].encode()) % 5 == 0:
                corpus.append({**d, "ra": True})
        corpus.extend(mk)
        # families: the same volume/reporter/page cited under different (or no) party names, adjacent in the corpus
        fam = []

        def collect_fam(x):
            fam.append(x)

        import hypothesis
        from hypothesis import HealthCheck, Phase as HP, given, settings

        @hypothesis.seed(seed * 31 + 17)
        @settings(max_examples=60 if tier == "quick" else 1000, database=None, deadline=None, suppress_health_check=list(HealthCheck), phases=[HP.generate])
        @given(_family())
        def t(x):
            fam.append(x)

        t()
        groups = []
        for f in fam:
            groups.append([dict(item) if isinstance(item, dict) else {"text": item} for item in f["texts"]])
        # court families: an abbreviated court that several courts-db entries start with, next to citations naming each
        # of those courts in full (walked forwards by one child and backwards by the next)
        cf = inv.ambiguous_court_prefixes()
        if tier == "quick":
            cf = cf[seed % 2::2]
        for gi, (abbr, fulls) in enumerate(cf):
            groups.append([{"text": t} for t in _court_texts(abbr, fulls, gi)])
        for gi, g in enumerate(groups):
            for item in g:
                corpus.append(dict(item, family=True, group=gi))
        workdir = os.path.join(HOME, "out", "C15", f"proc-{os.getpid()}")
        shutil.rmtree(workdir, ignore_errors=True)
        os.makedirs(workdir)
        try:
            nchunks = max(1, 16 // len(seeds))
            size = (len(corpus) + nchunks - 1) // nchunks
            chunks = [corpus[i * size:(i + 1) * size] for i in range(nchunks)]  # contiguous: families stay together
            jobs = []
            for ci, chunk in enumerate(chunks):
                cp = os.path.join(workdir, f"corpus{ci}.json")
                json.dump(chunk, open(cp, "w", encoding="utf8"), ensure_ascii=False)
                for si, s in enumerate(seeds):
                    # every other child walks its chunk backwards: a result that depends on which texts were
                    # processed before shows up as a difference between children
                    jobs.append((ci, s, "ac" + ("-rev" if si % 2 else ""), cp, os.path.join(workdir, f"out-{ci}-{s}-ac.json")))
            # hs / ref on a subset (two seeds)
            sub = (corpus[: len(ties) * 4] + corpus[len(ties) * 4:: 8])[: 400 if tier == "quick" else 4000]
            sp = os.path.join(workdir, "corpus-sub.json")
            json.dump(sub, open(sp, "w", encoding="utf8"), ensure_ascii=False)
            for tkn in ("hs", "ref"):
                for s in seeds[:2]:
                    jobs.append(("sub", s, tkn, sp, os.path.join(workdir, f"out-sub-{s}-{tkn}.json")))
            procs = []
            env0 = dict(os.environ)
            pending = list(jobs)
            running = []
            while pending or running:
                while pending and len(running) < 16:
                    job = pending.pop(0)
                    env = dict(env0, PYTHONHASHSEED=str(job[1]))
                    p = subprocess.Popen([sys.executable, "-m", "vf.c15_child", job[3], job[4], job[2]], env=env, stdout=subprocess.PIPE, stderr=subprocess.PIPE)
                    running.append((job, p))
                for job, p in list(running):
                    if p.poll() is not None:
                        running.remove((job, p))
                        if p.returncode != 0:
                            raise HarnessError(f"child {job[:3]} failed: {p.stderr.read().decode()[-500:]}")
                time.sleep(0.05)
            # compare
            results = defaultdict(dict)  # (chunk, tokenizer) -> seed -> list
            for ci, s, tkn, cp, op in jobs:
                results[(ci, tkn.replace("-rev", ""))][s] = json.load(open(op, encoding="utf8"))
            for (ci, tkn), by_seed in results.items():
                items = chunks[ci] if ci != "sub" else sub
                ss = sorted(by_seed, key=str)
                for idx, item in enumerate(items):
                    vals = [by_seed[s][idx] for s in ss]
                    res = Res()
                    res.label("phase:processes", "tokenizer:" + tkn)
                    has_cite = vals[0] not in ("[]",) and not vals[0].startswith("RAISED")
                    res.nontrivial = has_cite or bool(item.get("tie"))
                    if item.get("tie"):
                        res.label("tie-prone")
                    case = {"kind": "process", "tokenizer": tkn, "seeds": [str(x) for x in ss], **item}
                    if len(set(vals)) > 1 and item.get("family"):
                        a = vals[0]
                        j = next(k for k, v in enumerate(vals) if v != a)
                        g = [{k: v for k, v in it.items() if k in ("text", "markup", "steps", "ra")} for it in groups[item["group"]]]
                        res.v(f"process-dependent:{tkn}", f"PYTHONHASHSEED={ss[0]}: {_difference(a, vals[j])} vs PYTHONHASHSEED={ss[j]} (other order)",
                              case={"kind": "process", "tokenizer": tkn, "seeds": [str(ss[0]), str(ss[j])], "group_items": g, "index": g.index({k: v for k, v in item.items() if k in ("text", "markup", "steps", "ra")})})
                    elif len(set(vals)) > 1:
                        a = vals[0]
                        j = next(k for k, v in enumerate(vals) if v != a)
                        res.v(f"process-dependent:{tkn}" if item.get("family") else f"hash-seed-dependent:{tkn}", f"PYTHONHASHSEED={ss[0]}: {_difference(a, vals[j])} vs PYTHONHASHSEED={ss[j]}", case={"kind": "process", "tokenizer": tkn, "seeds": [str(ss[0]), str(ss[j])], **{k: v for k, v in item.items()}})
                    total.add("processes", case, res)
            total.extra["hash_seeds"] = [str(s) for s in seeds]
            total.extra["tie_prone_cores"] = len(ties)
        finally:
            shutil.rmtree(workdir, ignore_errors=True)

    return run


def _difference(a, b):
    try:
        la, lb = json.loads(a), json.loads(b)
    except Exception:
        return f"{a[:200]!r} != {b[:200]!r}"
    for x, y in zip(la, lb):
        if x != y:
            keys = [k for k in x if x.get(k) != y.get(k)]
            return f"citation {x.get('matched')!r} differs in {keys}: {[x.get(k) for k in keys]} != {[y.get(k) for k in keys]}"
    return f"{len(la)} vs {len(lb)} citations"


def eval_process_replay(case):
    """Replay of a process-phase case: run the two seeds again."""
    res = Res()
    workdir = os.path.join(HOME, "out", "C15", f"replay-{os.getpid()}")
    os.makedirs(workdir, exist_ok=True)
    try:
        cp = os.path.join(workdir, "c.json")
        if "group_items" in case:
            # a family: the same texts walked forwards and backwards in two fresh interpreters (same hash seed)
            json.dump(case["group_items"], open(cp, "w", encoding="utf8"), ensure_ascii=False)
            vals = []
            for tkn in (case.get("tokenizer", "ac"), case.get("tokenizer", "ac") + "-rev"):
                op = os.path.join(workdir, f"o{tkn}.json")
                r = subprocess.run([sys.executable, "-m", "vf.c15_child", cp, op, tkn], env=dict(os.environ, PYTHONHASHSEED="0"), capture_output=True)
                if r.returncode != 0:
                    raise HarnessError(r.stderr.decode()[-400:])
                vals.append(json.load(open(op, encoding="utf8")))
            for x, y in zip(*vals):
                if x != y:
                    res.v(f"process-dependent:{case.get('tokenizer', 'ac')}", "forwards vs backwards: " + _difference(x, y))
                    break
            res.nontrivial = True
            return res
        item = {k: v for k, v in case.items() if k in ("text", "markup", "steps", "ra")}
        json.dump([item], open(cp, "w", encoding="utf8"), ensure_ascii=False)
        vals = []
        for s in case.get("seeds", ["0", "1", "2", "3"]):
            op = os.path.join(workdir, f"o{s}.json")
            r = subprocess.run([sys.executable, "-m", "vf.c15_child", cp, op, case.get("tokenizer", "ac")], env=dict(os.environ, PYTHONHASHSEED=str(s)), capture_output=True)
            if r.returncode != 0:
                raise HarnessError(r.stderr.decode()[-400:])
            vals.append(json.load(open(op, encoding="utf8"))[0])
        if len(set(vals)) > 1:
            res.v(f"hash-seed-dependent:{case.get('tokenizer', 'ac')}", _difference(vals[0], next(v for v in vals if v != vals[0])))
        res.nontrivial = True
    finally:
        shutil.rmtree(workdir, ignore_errors=True)
    return res


# --------------------------------------------------------------------------- (b) histories


def _custom_tokenizer(salt):
    """The documented custom-tokenizer usage: an AhocorasickTokenizer over a selection (here: a salt-determined half,
    for odd salts in reverse order) of the stock extractor objects."""
    from eyecite.tokenizers import EXTRACTORS, AhocorasickTokenizer

    sel = [e for k, e in enumerate(EXTRACTORS) if zlib.crc32(f"{salt}:{k}".encode()) % 2 == 0 or k >= len(EXTRACTORS) - 5]
    if salt % 2:
        sel.reverse()
    return AhocorasickTokenizer(extractors=sel)


def _extract(text, opt):
    from eyecite import get_citations

    toks = tk.get(("ac",))
    kw = {}
    if opt & 1:
        kw["remove_ambiguous"] = True
    if opt & 2:
        # this call uses a tokenizer of its own, built now; the calls with the default tokenizer must not notice
        custom = call(_custom_tokenizer, opt >> 2)
        if isinstance(custom, Raised):
            return custom
        if isinstance(text, dict):
            return call(get_citations, markup_text=text["markup"], clean_steps=text["steps"], tokenizer=custom, **kw)
        return call(get_citations, text, tokenizer=custom, **kw)
    if isinstance(text, dict):  # markup mode
        return call(get_citations, markup_text=text["markup"], clean_steps=text["steps"], tokenizer=toks["ac"], **kw)
    return call(get_citations, text, tokenizer=toks["ac"], **kw)


def eval_history(case):
    res = Res()
    texts = case["texts"]
    kept = []  # (key, result list, serialisation when returned)
    first = {}
    any_cite = False
    for step, (i, opt) in enumerate(case["ops"]):
        text = texts[i % len(texts)]
        before = json.dumps(text, sort_keys=True) if isinstance(text, dict) else str(text)
        out = _extract(text, opt)
        # the arguments (the list of cleaning steps is handed over as the caller's own object) are inputs, whether the
        # call returns or raises
        if (json.dumps(text, sort_keys=True) if isinstance(text, dict) else text) != before:
            res.v("input-modified", f"step {step}: {before} became {json.dumps(text, sort_keys=True) if isinstance(text, dict) else text}")
        if isinstance(out, Raised):
            # an exception is a result too: the same call must raise every time or never
            res.label("raised")
            key = (i % len(texts), opt & 1, opt >> 1)
            s = f"RAISED {out.type}"
            if key in first and first[key] != s:
                res.v("history-dependent", f"step {step}: extract(text #{key[0]}, ra={key[1]}) raises {out.type} but returned a result the first time")
            first.setdefault(key, s)
            continue
        s = ser(out)
        any_cite = any_cite or bool(out)
        key = (i % len(texts), opt & 1, opt >> 1)
        if opt & 2:
            res.label("custom-tokenizer-in-between")
        if key in first and first[key] != s:
            res.v("history-dependent", f"step {step}: extract(text #{key[0]}, ra={key[1]}) differs from its first result: {_difference(first[key], s)}")
        first.setdefault(key, s)
        kept.append((key, list(out), s))
        # the returned list belongs to the caller: mutate it in place (as `citations.extend(references)` would)
        m = (step + opt) % 4
        if m == 1 and out:
            out.append(out[0])
        elif m == 2:
            out.reverse()
        elif m == 3:
            del out[:]
        for k2, out2, s2 in kept[:-1]:
            if False:
                res.v("result-object-shared-between-calls", f"step {step}: the list returned for {key} is the object returned earlier for {k2}")
                break
            now = ser(out2)
            if now != s2:
                res.v("earlier-result-modified", f"step {step}: result of {k2} changed after a later call: {_difference(s2, now)}")
                break
    res.nontrivial = any_cite and len(case["ops"]) >= 2
    res.label("phase:histories")
    return res


# --------------------------------------------------------------------------- (c) threads


class Coop:
    """Run thunks in threads, one at a time; switch after schedule[i] line events inside eyecite frames."""

    def __init__(self, thunks, schedule, root):
        self.n = len(thunks)
        self.thunks = thunks
        self.schedule = list(schedule)
        self.results = [None] * self.n
        self.sems = [threading.Semaphore(0) for _ in thunks]
        self.alive = [True] * self.n
        self.budget = self.next_budget()
        self.switches = 0
        self.root = root

    def next_budget(self):
        return self.schedule.pop(0) if self.schedule else 10 ** 9

    def pick_next(self, me):
        for d in range(1, self.n + 1):
            j = (me + d) % self.n
            if self.alive[j] and j != me:
                return j
        return None

    def tracer(self, i):
        def local(frame, event, arg):
            if event == "line":
                self.budget -= 1
                if self.budget <= 0:
                    j = self.pick_next(i)
                    self.budget = self.next_budget()
                    if j is not None:
                        self.switches += 1
                        self.sems[j].release()
                        self.sems[i].acquire()
            return local

        def glob(frame, event, arg):
            if event == "call" and frame.f_code.co_filename.startswith(self.root):
                return local
            return None

        return glob

    def worker(self, i):
        self.sems[i].acquire()
        sys.settrace(self.tracer(i))
        try:
            self.results[i] = self.thunks[i]()
        except BaseException as e:  # noqa: BLE001
            self.results[i] = f"RAISED {type(e).__name__}: {e}"
        finally:
            sys.settrace(None)
            self.alive[i] = False
            j = self.pick_next(i)
            if j is not None:
                self.sems[j].release()

    def run(self):
        ts = [threading.Thread(target=self.worker, args=(i,)) for i in range(self.n)]
        for t in ts:
            t.start()
        self.sems[0].release()
        for t in ts:
            t.join()
        return self.results


def eval_threads(case):
    import eyecite
    from eyecite import get_citations

    res = Res()
    texts = case["texts"]
    root = os.path.dirname(eyecite.__file__)
    base = []
    for t in texts:
        out = call(get_citations, t)
        base.append(ser(out) if not isinstance(out, Raised) else f"RAISED {out.type}")
    if case.get("fresh"):
        # a freshly constructed tokenizer is in the state the default tokenizer has at process start (cold)
        from eyecite.tokenizers import AhocorasickTokenizer

        tok = call(AhocorasickTokenizer)
        if isinstance(tok, Raised):
            res.label("raised")
            return res
        thunks = [(lambda t=t: ser(get_citations(t, tokenizer=tok))) for t in texts]
        res.label("cold-tokenizer")
    else:
        thunks = [(lambda t=t: ser(get_citations(t))) for t in texts]
    if case.get("stress"):
        results = [None] * len(texts)
        old = sys.getswitchinterval()
        sys.setswitchinterval(1e-6)
        try:
            def w(i):
                try:
                    for _ in range(3):
                        results[i] = thunks[i]()
                except BaseException as e:  # noqa: BLE001
                    results[i] = f"RAISED {type(e).__name__}"
            ts = [threading.Thread(target=w, args=(i,)) for i in range(len(texts))]
            for t in ts:
                t.start()
            for t in ts:
                t.join()
        finally:
            sys.setswitchinterval(old)
        res.label("phase:threads-stress")
        switches = 1
    else:
        c = Coop(thunks, case["schedule"], root)
        results = c.run()
        switches = c.switches
        res.label("phase:threads-scheduled")
        G["switches"] = G.get("switches", 0) + switches
    for i, (a, b) in enumerate(zip(base, results)):
        if b is not None and isinstance(b, str) and b.startswith("RAISED") and not a.startswith("RAISED"):
            res.v("thread-raises", f"text #{i} {texts[i]!r}: {b}")
        elif a != b and not a.startswith("RAISED"):
            res.v("schedule-dependent", f"text #{i} {texts[i]!r}: {_difference(a, b or '[]')}")
    # after the concurrent run the sequential result must still be the same
    for i, t in enumerate(texts):
        out = call(get_citations, t)
        if not isinstance(out, Raised) and ser(out) != base[i] and not base[i].startswith("RAISED"):
            res.v("state-left-behind-by-threads", f"text #{i} {t!r}")
    res.nontrivial = switches > 0 and any(b != "[]" for b in base)
    return res


def shrink(case, fails):
    """Process cases cost a fresh interpreter per evaluation: shrink only the text, with a small budget."""
    from vf.core import ddmin_seq, shrink_case

    if case.get("kind") != "process":
        return shrink_case(case, fails, budget_n=300)
    key = "text" if "text" in case else "markup"
    budget = [40]
    out = ddmin_seq(case[key], lambda s: {**case, key: "".join(s)}, fails, budget)
    return {**case, key: "".join(out)}


def evaluate(case):
    k = case.get("kind")
    if k == "history":
        return eval_history(case)
    if k == "threads":
        return eval_threads(case)
    if k == "process":
        return eval_process_replay(case)
    raise HarnessError(f"unknown case kind {k!r}")


_TIE_TEXTS = ["foo supra,§, bar", "12 S.W.2d, 345", "1 Rob. 1", "5 Johnson 0", "12 T.C. at 345", "1 CCH Unemployment Ins. Rep. 1", "12 Hughes (1877) 345"]


def _markup_text():
    """Marked-up input with the caller's list of cleaning steps - now and then a list without the required 'html' step
    (an error path: whatever the call does, it must not touch the list)."""
    return st.builds(lambda m, st_: {"markup": m["markup"], "steps": list(st_) if st_ is not None else m["steps"]},
                     markup.marked_up(), st.sampled_from([None, None, ["all_whitespace"], ["inline_whitespace", "underscores"], []]))


def _hist_text():
    return st.one_of(_markup_text(), _text())


def _text():
    return st.one_of(legal.document(hostile=False, multibyte=True, max_frags=5), legal.document(hostile=True, max_frags=4), st.sampled_from(_TIE_TEXTS))


@st.composite
def _family(draw):
    """Texts that cite the SAME volume/reporter/page under different (or no) party names, in plain and markup
    mode: any memo keyed on a citation's value instead of its text shows up as history dependence."""
    names = draw(st.lists(st.sampled_from(["Kalomi", "Rentov", "Zenqua", "Drifel", "Gorhup", "Vaswim", "Miranda", "Arizona"]), min_size=4, max_size=4, unique=True))
    a, b, c, d = names
    cite = f"{draw(st.integers(1, 500))} {draw(st.sampled_from(['U.S.', 'F.2d', 'F.3d', 'P.2d']))} {draw(st.integers(1, 900))}"
    steps = draw(st.sampled_from([["html"], ["html", "all_whitespace"]]))
    docs = [
        {"markup": f"<i>{a}</i> v. <i>{b}</i>, {cite} (1999). Later the <i>{a}</i> court said so; see <em>{b}</em>.", "steps": steps},
        {"markup": f"See {cite} (1999). The <i>{a}</i> court and the <em>{c}</em> court agreed.", "steps": steps},
        {"markup": f"{c} v. {d}, {cite}. In <em>{c}</em> and in <i>{a}</i> the rule was stated; <i>{d},</i> too.", "steps": steps},
        f"{a} v. {b}, {cite}. {a} at 5 and {c} at 6.",
        f"{c} v. {d}, {cite} (2001). {a} at 5 and {c} at 6. Id. at 7.",
        f"See {cite}. {a} at 5.",
    ]
    # the same (single usable) party name in different roles, in different cases
    c1, c2, c3 = (f"{draw(st.integers(1, 500))} U.S. {draw(st.integers(1, 900))}" for _ in range(3))
    docs += [
        f"The leading case is {a} v. Acme Inc., {c1} (1990). As explained in {a} at 5, the rule is settled.",
        f"Compare In re {a}, {c2} (1991). The court in {a} at 7 held otherwise.",
        f"State v. {a}, {c3}. {a} at 9 and {b} at 3.",
        f"{b} v. United States, {c1}. {b} at 2.",
    ]
    texts = draw(st.lists(st.sampled_from(docs), min_size=2, max_size=4))
    ops = draw(st.lists(st.tuples(st.integers(0, 3), st.integers(0, 1)).map(list), min_size=2, max_size=10))
    return {"kind": "history", "texts": texts, "ops": ops}


def _court_texts(abbr, fulls, k=0):
    rep = ["F.2d", "N.E.2d", "P.2d", "F. Supp."][k % 4]
    out = [f"Doe v. Roe, {10 + k % 7} {rep} {100 + k} ({abbr} 2005)."]
    for j, f in enumerate(fulls[:6]):
        out.append(f"Foo v. Bar, {5 + j} {rep} {50 + k}, {52 + k} ({f} 1999).")
    return out


@st.composite
def _court_family(draw):
    """An abbreviated court with several candidate courts, between citations that name each candidate in full."""
    cf = inv.ambiguous_court_prefixes()
    k = draw(st.integers(0, len(cf) - 1))
    texts = _court_texts(cf[k][0], cf[k][1], k)
    n = len(texts)
    ops = [[0, 0]] + draw(st.lists(st.tuples(st.integers(0, n - 1), st.integers(0, 1)).map(list), min_size=2, max_size=8)) + [[0, 0]]
    return {"kind": "history", "texts": texts, "ops": ops}


@st.composite
def _tie_history(draw):
    """Texts on which two stock patterns tie (same characters, different groups), extracted with the default tokenizer
    before and after other tokenizers were built from selections of the same extractor objects."""
    texts = draw(st.lists(st.sampled_from(G.get("ties") or _TIE_TEXTS), min_size=1, max_size=3))
    ops = [[0, 0]]
    for _ in range(draw(st.integers(1, 3))):
        ops.append([draw(st.integers(0, 2)), draw(st.sampled_from([2, 6, 10, 14]))])
        ops.append([draw(st.integers(0, 2)), 0])
    return {"kind": "history", "texts": texts, "ops": ops}


def _history():
    return st.one_of(_family(), _plain_history(), _plain_history(), _court_family(), _tie_history())


def _plain_history():
    return st.builds(
        lambda texts, ops: {"kind": "history", "texts": texts, "ops": ops},
        st.lists(_hist_text(), min_size=1, max_size=4),
        st.lists(st.tuples(st.integers(0, 3), st.sampled_from([0, 0, 1, 1, 0, 1, 2, 6, 10, 14])).map(list), min_size=2, max_size=10),
    )


def _threads(stress=False):
    if stress:
        return st.lists(_text(), min_size=8, max_size=8).map(lambda t: {"kind": "threads", "texts": t, "stress": True})
    return st.builds(
        lambda texts, sched, fresh: {"kind": "threads", "texts": texts, "schedule": sched, "fresh": fresh},
        st.lists(_text(), min_size=2, max_size=4),
        st.lists(st.one_of(st.integers(1, 60), st.integers(1, 60), st.integers(100, 20000)), min_size=5, max_size=80),
        st.sampled_from([False, False, True]),
    )


COLD_TEXTS = ["Foo v. Bar, 1 U.S. 1, 5 (1999). Id. at 6. Bar, supra, at 7. Roe v. Wade, 410 U.S. 113. Ibid. at 2.",
              "See Smith v. Jones, 2 F.2d 2 (4th Cir. 1950); id. at 9; Jones, supra; 42 U.S.C. § 1983."]


def _cold_sweep_items(tier):
    """Single-preemption sweep on a cold tokenizer: thread A runs k line events inside eyecite, then thread B runs to
    completion, then A finishes. k follows a geometric grid, so every stretch of the first call (lazy set-up included)
    is interrupted somewhere."""
    ratio = 1.05 if tier == "quick" else 1.01
    ks, k = [], 1.0
    while k < 400000:
        ks.append(int(k))
        k = max(k * ratio, k + 1)
    ks = sorted(set(ks))
    return [{"kind": "threads", "texts": COLD_TEXTS, "schedule": [k_, 10 ** 9], "fresh": True, "sweep": True} for k_ in ks]


WARM_PAIRS = [
    ["See 1 U.S. 1.", "See 2 U.S. 2, 3."],  # the same reporter extractor in both threads
    ["Id. at 5. Bar, supra, at 7.", "Ibid. at 9. Foo, supra."],
    ["42 U.S.C. \u00a7 1983.", "18 U.S.C. \u00a7 1 (2012)."],
    ["Foo v. Bar, 1 U.S. 1, 5 (1999). Bar at 7.", "Roe v. Wade, 410 U.S. 113, 120 (1973). Wade at 121."],
    ["1 Minn. L. Rev. 1.", "7 F.2d 9; 8 F.2d at 10."],
]


def _line_events(text):
    """Number of line events inside eyecite frames during one (warm) extraction of `text`."""
    import eyecite
    from eyecite import get_citations

    root = os.path.dirname(eyecite.__file__)
    n = [0]

    def local(frame, event, arg):
        if event == "line":
            n[0] += 1
        return local

    def glob(frame, event, arg):
        return local if event == "call" and frame.f_code.co_filename.startswith(root) else None

    get_citations(text)
    sys.settrace(glob)
    try:
        get_citations(text)
    finally:
        sys.settrace(None)
    return n[0]


def _warm_sweep_items(tier):
    """Exhaustive single-preemption sweep on the warm default tokenizer: thread A is suspended after its k-th line
    event inside eyecite, for EVERY k of its extraction, while thread B extracts a text that uses the same
    extractors; then A finishes.  Any per-call datum parked in an object the two calls share is exposed."""
    out = []
    for a, b in WARM_PAIRS:
        for x, y in ((a, b), (b, a)) if tier != "quick" else ((a, b),):
            total = _line_events(x)
            for k in range(1, total + 1):
                out.append({"kind": "threads", "texts": [x, y], "schedule": [k, 10 ** 9], "fresh": False, "sweep": True})
    return out


def phases(tier):
    n_hist, n_thr, n_stress = (1500, 400, 48) if tier == "quick" else (20000, 4000, 400)
    return [
        Phase("histories", "gen", strategy=_history, n=n_hist),
        Phase("thread-schedules", "gen", strategy=_threads, n=n_thr),
        Phase("thread-stress", "gen", strategy=lambda: _threads(True), n=n_stress),
        Phase("cold-start-preemption-sweep", "enum", items=lambda: _cold_sweep_items(tier), chunk=4),
        Phase("warm-preemption-sweep", "enum", items=lambda: _warm_sweep_items(tier), exhaustive=True, chunk=40),
        Phase("processes", "custom", fn=process_phase(tier)),
    ]
