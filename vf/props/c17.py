"""C17 - extracted metadata is text taken from the citation's own extent."""
from hypothesis import strategies as st

from vf import tk
from vf.core import Phase, Raised, Res
from vf.ext import extract, kind
from vf.gen import legal

ID = "C17"
RULE = (
    "citation-dense documents (consecutive citations with and without case names, parallel cites, California-style "
    "leading years, nested parentheticals, hostile mutations); oracle (a): every textual metadata value is a substring "
    "of text[full-span start : max full-span end of the citations sharing that start]; oracle (b), metamorphic: "
    "appending a paragraph break plus an unrelated citation sentence leaves kinds, spans, full spans, years and "
    "metadata of the citations already present unchanged (new reference citations ignored). Non-trivial: >= 2 "
    "citations less than 300 characters apart; distinct = distinct case"
)
ASSUMPTIONS = [
    "the append relation is asserted only after a paragraph break (forward scans stop at paragraph tokens); "
    "the relation without the break over-reaches the statement (DESIGN 4.2) and is not asserted",
]
FIELDS = ["pin_cite", "year", "plaintiff", "defendant", "antecedent_guess", "extra", "publisher", "month", "day", "volume"]
APPENDIX = [
    "Unrelated v. Matter, 9 F.3d 77, 80 (2d Cir. 1993) (holding nothing).",
    "See Zed v. Why, 3 Cal. 4th 5 (2001); id. at 6.",
    "Quux, supra, at 44. 18 U.S.C. § 1 (2012).",
    "In re Nobody, 5 F.2d 6 (1925).",
    "Other v. Thing (1955) 7 Cal.2d 9, 11",
]


def setup(tier):
    tk.get(("ac", "hs", "ref"))


def _snap(c):
    """What the append relation compares: kind, where the citation starts, its year and its textual metadata.
    Span ends and groups are left out on purpose: some reporters-db templates absorb following whitespace or an
    optional trailing group depending on what comes next, which is not 'metadata taken from another citation'."""
    return (kind(c), c.span()[0], getattr(c, "year", None),
            tuple(sorted((k, v) for k, v in c.metadata.__dict__.items() if v is not None and not k.startswith("pin_cite_span"))))


def evaluate(case):
    from eyecite.models import FullCitation, ReferenceCitation

    res = Res()
    text = case["text"]
    cites, _ = extract(case)
    if isinstance(cites, Raised):
        res.label("raised")
        return res
    groups = {}
    for c in cites:
        f0, f1 = c.full_span()
        groups[f0] = max(groups.get(f0, f1), f1)
    for c in cites:
        f0, f1 = c.full_span()
        j0, j1 = f0, groups[f0]
        if not (0 <= j0 <= j1 <= len(text)):
            res.label("bad-offsets")  # the offsets themselves are C02's business: clip and still judge the values
            j0, j1 = max(0, j0), max(0, min(len(text), j1))
        window = text[j0:j1]
        k = kind(c)
        for f in FIELDS:
            v = getattr(c.metadata, f, None)
            if v and v not in window:
                res.v(f"outside:{f}:{k}", f"{f}={v!r} not in text[{j0}:{j1}]={window!r}")
        if isinstance(c, FullCitation):
            v = c.metadata.parenthetical
            if v and v not in window:
                res.v(f"outside:parenthetical:{k}", f"parenthetical={v!r} not in text[{j0}:{j1}]={window!r}")
        if j1 > f1:
            res.label("parallel-group")
    spans = sorted(c.span() for c in cites)
    res.nontrivial = any(b[0] - a[1] < 300 for a, b in zip(spans, spans[1:]))
    # metamorphic: append an unrelated paragraph. Both sides end the original text with the paragraph break, so
    # that "end of text" effects (a pin cite terminated by the end of the text, a template that absorbs the
    # following character) are the same on both sides and only the appended paragraph differs.
    ap = case.get("append")
    if ap is not None and cites:
        base_text = text + "\n"
        cites1, _ = extract({**case, "text": base_text})
        cites2, _ = extract({**case, "text": base_text + APPENDIX[ap % len(APPENDIX)]})
        if isinstance(cites1, Raised) or isinstance(cites2, Raised):
            res.label("raised")
            return res
        res.label("append")
        before = [_snap(c) for c in cites1 if not isinstance(c, ReferenceCitation)]
        after = [_snap(c) for c in cites2 if not isinstance(c, ReferenceCitation) and c.span()[1] <= len(base_text)]
        if before != after:
            diff = next(((a, b) for a, b in zip(before, after) if a != b), (before[len(after):][:1], after[len(before):][:1]))
            res.v("append-changed", f"{diff}")
    return res


@st.composite
def _dense(draw):
    parts = []
    for _ in range(draw(st.integers(2, 6))):
        k = draw(st.integers(0, 9))
        if k < 4:
            parts.append(draw(legal.named()))
        elif k < 6:
            parts.append(draw(legal.full()))
        else:
            parts.append(draw(legal.fragment(hostile=False)))
        parts.append(draw(st.sampled_from([". ", "; ", ", ", " ", ". ", "\n", "... ", " and "])))
    return "".join(parts)


@st.composite
def _long_prose_before(draw):
    """>= 300 characters of uninterrupted plain words right before a supra / short-form / name-first citation, with
    every alignment of the window edge against the last words (two names, varying word lengths)."""
    words = ["the", "panel", "then", "turned", "to", "merits", "and", "found", "this", "reasoning", "persuasive", "because", "a", "of", "it"]
    n = draw(st.integers(45, 110))
    prose = " ".join(draw(st.lists(st.sampled_from(words), min_size=n, max_size=n)))
    pad = "Z" * draw(st.integers(0, 14))
    n1, n2 = draw(st.sampled_from(["Jones", "Kalomi", "Roe", "Bar"])), draw(st.sampled_from(["Smith", "Rentov", "Wade", "Foo"]))
    v, p, pg = draw(st.integers(1, 600)), draw(st.integers(1, 900)), draw(st.integers(1, 900))
    tail = draw(st.sampled_from([
        f"{n1}, {n2}, supra, at {pg}.",
        f"{n1}, {n2}, {v} U.S. at {pg}.",
        f"{n1} {n2} at {pg}, {v} S.Ct. {p}.",
        f"{n1}, {n2}, {v} supra, at {pg}.",
        f"{n1} {n2}, {v} F.2d {p}, {pg} (1999).",
    ]))
    return {"text": f"{prose}. {pad} {tail}" if pad else f"{prose}. {tail}", "tokenizer": "ac", "append": None}


def _cases():
    docs = st.one_of(legal.document(hostile=True), _dense(), _dense())
    return st.builds(lambda t, a: {"text": t, "tokenizer": "ac", "append": a}, docs, st.one_of(st.none(), st.integers(0, 4)))


def phases(tier):
    n = 12000 if tier == "quick" else 200000
    other = lambda which: _cases().map(lambda c: {**c, "tokenizer": which})
    return [Phase("docs", "gen", strategy=_cases, n=n), Phase("long-prose-before", "gen", strategy=_long_prose_before, n=n // 4),
            Phase("docs-hs", "gen", strategy=lambda: other("hs"), n=n // 10), Phase("docs-ref", "gen", strategy=lambda: other("ref"), n=n // 20)]
