"""C10 - annotations enclose exactly the cited characters, in order."""
import re
from bisect import bisect_left, bisect_right

from hypothesis import strategies as st

from vf.core import Phase, Raised, Res, call

ID = "C10"
RULE = (
    "(a) no source: plain text x non-empty pairwise non-overlapping spans (+ arbitrary extra spans); oracle: each such "
    "span appears exactly once as before+text[s:e]+after, in span order. (b) forced alignment: plain over alphabet P, "
    "source = plain with material over a disjoint alphabet Q inserted at arbitrary positions (so the position of every "
    "plain character in the source is known and the minimal diff is unique), fast_diff_match_patch engine; oracle: the "
    "text between the k-th before/after pair is source[pos(s) : pos(e-1)+1], order kept; in a third of the cases the "
    "inserted material consists of self-contained well-formed snippets (<br/>, comments, empty elements) and the mode is "
    "drawn from {skip, wrap, unchecked}: with nothing to repair all three must give the same enclosure. (c) arbitrary string pairs, "
    "both engines; oracle: each offset translation flavour is monotone and within [0, len(source)] and "
    "T_start(s) <= T_end(e) for s < e. Non-trivial: (a) >= 2 spans; (b) inserted material adjacent to an annotation "
    "boundary; (c) strings differ; distinct = distinct case"
)
ASSUMPTIONS = [
    "the exact-position oracle (b) is applied to the minimal-diff engine only: difflib's matching-block heuristic is not a minimal diff",
    "SpanUpdater is observed directly for (c) (it is the translation the statement speaks of)",
]
P = "ABCDE 123.,§"
# what is drawn: the characters of P, and now and then text that is not in Unicode normal form C (a letter followed by
# a combining mark, conjoining jamo) - the offsets are code points of the texts as given
P_DRAW = list(P) * 3 + ["\u0301", "A\u0308", "E\u0301", "\u1100\u1161", "\u212b"]
Q = ["<i>", "</i>", "<em>", "</em>", "\n", "\t", "<p>", "</p>", "<br/>", "zz", "<a>", "</a>", "\r"]
# self-contained, well-formed snippets: whatever slice of the source an annotation of plain characters covers is
# balanced markup, so the tag-handling modes have nothing to repair and must behave like "unchecked"
Q_BAL = ["<br/>", "<hr/>", "<!--zz-->", "<a\nid=\"pq\"/>", "\n", "\t", "<i></i>", "<em>zz</em>", "<b/>", "<!---->"]
_PAIR = re.compile("\ue000([0-9]+)\ue001(.*?)\ue002\\1\ue003", re.S)
_SENT = re.compile("[\ue000\ue002][0-9]+[\ue001\ue003]")


P_SET = set("".join(P_DRAW))


def setup(tier):
    from vf.core import HarnessError

    if set("".join(Q + Q_BAL)) & P_SET:
        raise HarnessError("inserted alphabet Q must be disjoint from the plain alphabet P")


def sent(k):
    return f"\ue000{k}\ue001", f"\ue002{k}\ue003"


def evaluate(case):
    from eyecite import annotate_citations
    from eyecite.annotate import SpanUpdater

    res = Res()
    kind = case["kind"]
    res.label("kind:" + kind)
    if kind == "nosource":
        plain = case["plain"]
        spans = [tuple(s) for s in case["spans"]]
        extra = [tuple(s) for s in case.get("extra", [])]
        if any(not (0 <= a <= b <= len(plain)) for a, b in spans + extra) or "\ue000" in plain:
            return res
        srt = sorted(spans)
        if any(a >= b for a, b in spans) or any(x[1] > y[0] for x, y in zip(srt, srt[1:])):
            return res  # precondition: non-empty, pairwise non-overlapping
        anns = [((a, b),) + sent(k) for k, (a, b) in enumerate(spans)]
        # extra spans are arbitrary; only those among `spans` that do not overlap an EARLIER (sorted) annotation are judged
        allanns = anns + [((a, b),) + sent(100 + k) for k, (a, b) in enumerate(extra)]
        order = case.get("order")
        if order:
            allanns = [allanns[i % len(allanns)] for i in order] if False else allanns
        arg = list(reversed(allanns)) if case.get("rev") else allanns
        if case.get("iter"):
            arg = (x for x in arg)  # the parameter is typed Iterable: a one-shot iterator is a legal argument
        out = call(annotate_citations, plain, arg)
        if isinstance(out, Raised):
            res.v("raises:" + out.bucket(), repr(out))
            return res
        found = _PAIR.findall(out)
        # which of `spans` are overlapped by an earlier annotation in sorted order?
        judged = []
        last_end = 0
        for (a, b), bf, af in sorted(allanns):
            k = int(bf[1:-1])
            clipped = a < last_end
            if a < last_end:
                a = last_end
            if a >= b:
                continue
            if k < 100 and not clipped:
                judged.append((k, spans[k]))
            last_end = b
        got = {}
        for ks, body in found:
            got.setdefault(int(ks), []).append(body)
        for k, (a, b) in judged:
            bodies = got.get(k, [])
            if len(bodies) != 1:
                res.v("nosource:count", f"span {k}={a, b} of {plain!r} appears {len(bodies)} times in {out!r}")
            elif bodies[0] != plain[a:b]:
                res.v("nosource:content", f"span {k}={a, b} encloses {bodies[0]!r} instead of {plain[a:b]!r} in {out!r}")
        seq = [int(ks) for ks, _ in found if int(ks) < 100 and any(int(ks) == k for k, _ in judged)]
        exp = [k for k, _ in sorted(judged, key=lambda x: x[1])]
        if seq != exp and not res.violations:
            res.v("nosource:order", f"annotations appear as {seq}, span order is {exp}: {out!r}")
        res.nontrivial = len(spans) >= 2
        return res
    if kind == "forced":
        plain = case["plain"]
        ins = case["ins"]  # list of [position in plain 0..len, q-index]
        spans = [tuple(s) for s in case["spans"]]
        if any(ch not in P_SET and not (case.get("multiline") and ch == "\n") for ch in plain) or not plain:
            return res
        if case.get("multiline"):
            res.label("multiline")
        srt = sorted(spans)
        if any(not (0 <= a < b <= len(plain)) for a, b in spans) or any(x[1] > y[0] for x, y in zip(srt, srt[1:])):
            return res
        by_pos = {}
        for pos_, qi in ins:
            if 0 <= pos_ <= len(plain):
                q = (Q_BAL if case.get("bal") else Q)[qi % len(Q_BAL if case.get("bal") else Q)]
                if case.get("multiline") and ("\n" in q or "\r" in q):
                    q = "zz"
                by_pos.setdefault(pos_, []).append(q)
        src = ""
        pos = []
        for i, ch in enumerate(plain):
            src += "".join(by_pos.get(i, []))
            pos.append(len(src))
            src += ch
        src += "".join(by_pos.get(len(plain), []))
        anns = [((a, b),) + sent(k) for k, (a, b) in enumerate(spans)]
        if case.get("rev"):
            anns = anns[::-1]
        mode = case.get("mode", "unchecked") if case.get("bal") else "unchecked"
        if case.get("bal"):
            res.label("balanced-insertions", "mode:" + mode)
        out = call(annotate_citations, plain, iter(anns) if case.get("iter") else anns, source_text=src, unbalanced_tags=mode, use_dmp=True)
        if isinstance(out, Raised):
            res.v("raises:" + out.bucket(), repr(out))
            return res
        if _SENT.sub("", out) != src:
            res.label("not-additive")  # C09's business
            return res
        found = _PAIR.findall(out)
        order = [int(k) for k, _ in found]
        exp_order = [k for k, _ in sorted(enumerate(spans), key=lambda x: x[1])]
        if order != exp_order:
            res.v("forced:order-or-count", f"plain={plain!r} src={src!r} spans={spans}: annotations appear as {order}, expected {exp_order}: {out!r}")
            return res
        for ks, body in found:
            a, b = spans[int(ks)]
            exp = src[pos[a]: pos[b - 1] + 1]
            if body != exp:
                res.v("forced:extent", f"plain={plain!r} src={src!r} span={a, b}: encloses {body!r}, expected {exp!r}")
        adj = any((a in by_pos) or (b in by_pos) for a, b in spans)
        if adj:
            res.label("insertion-adjacent-to-boundary")
        res.nontrivial = adj
        return res
    # kind == "pair": monotone / in-range translation for arbitrary string pairs
    a_text, b_text, dmp = case["a"], case["b"], case.get("dmp", True)
    if a_text == b_text:
        return res
    u = call(SpanUpdater, a_text, b_text, use_dmp=dmp)
    eng = "dmp" if dmp else "difflib"
    res.label("engine:" + eng)
    if isinstance(u, Raised):
        res.v(f"pair:construct-raises:{eng}:" + u.bucket(), repr(u))
        return res
    prev_s = prev_e = 0
    starts = []
    ends = []
    for o in range(len(a_text) + 1):
        s_ = call(u.update, o, bisect_right)
        e_ = call(u.update, o, bisect_left)
        if isinstance(s_, Raised) or isinstance(e_, Raised):
            r = s_ if isinstance(s_, Raised) else e_
            res.v(f"pair:update-raises:{eng}:" + r.bucket(), f"{a_text!r}->{b_text!r} offset {o}: {r!r}")
            return res
        if not (0 <= s_ <= len(b_text)) or not (0 <= e_ <= len(b_text)):
            res.v(f"pair:out-of-range:{eng}", f"{a_text!r}->{b_text!r} offset {o}: start->{s_} end->{e_} len={len(b_text)}")
        if s_ < prev_s or e_ < prev_e:
            res.v(f"pair:not-monotone:{eng}", f"{a_text!r}->{b_text!r} offset {o}: start->{s_} (prev {prev_s}) end->{e_} (prev {prev_e})")
        prev_s, prev_e = s_, e_
        starts.append(s_)
        ends.append(e_)
    for s in range(len(starts)):
        for e in range(s + 1, len(ends)):
            if starts[s] > ends[e]:
                res.v(f"pair:start-after-end:{eng}", f"{a_text!r}->{b_text!r}: T_start({s})={starts[s]} > T_end({e})={ends[e]}")
                break
    res.nontrivial = True
    return res


@st.composite
def _nosource(draw):
    plain = "".join(draw(st.lists(st.sampled_from(P_DRAW + ["<i>", "</i>", "&"]), min_size=1, max_size=25)))
    n = len(plain)
    cuts = sorted(draw(st.lists(st.integers(0, n), min_size=2, max_size=8, unique=True)))
    spans = [[cuts[i], cuts[i + 1]] for i in range(0, len(cuts) - 1, 2)]
    if draw(st.booleans()) and len(cuts) >= 3:  # touching spans
        spans = [[cuts[i], cuts[i + 1]] for i in range(len(cuts) - 1)][: draw(st.integers(1, 4))]
    extra = []
    for _ in range(draw(st.integers(0, 2))):
        a = draw(st.integers(0, n))
        extra.append([a, draw(st.integers(a, n))])
    return {"kind": "nosource", "plain": plain, "spans": spans, "extra": extra, "rev": draw(st.booleans()), "iter": draw(st.integers(0, 3)) == 0}


@st.composite
def _forced(draw):
    plain = "".join(draw(st.lists(st.sampled_from(P_DRAW), min_size=1, max_size=25)))
    n = len(plain)
    ins = draw(st.lists(st.tuples(st.integers(0, n), st.integers(0, len(Q) - 1)).map(list), max_size=10))
    cuts = sorted(draw(st.lists(st.integers(0, n), min_size=2, max_size=6, unique=True)))
    if draw(st.booleans()):
        spans = [[cuts[i], cuts[i + 1]] for i in range(0, len(cuts) - 1, 2)]
    else:  # abutting spans: the end of one is the start of the next
        spans = [[cuts[i], cuts[i + 1]] for i in range(len(cuts) - 1)]
    # inserted material exactly at annotation boundaries (that is where the two translation flavours differ)
    for a, b in spans:
        for edge in (a, b):
            if draw(st.integers(0, 2)) == 0:
                ins.append([edge, draw(st.integers(0, len(Q) - 1))])
    bal = draw(st.integers(0, 2)) == 0
    return {"kind": "forced", "plain": plain, "ins": ins, "spans": spans, "rev": draw(st.booleans()), "iter": draw(st.integers(0, 3)) == 0,
            "bal": bal, "mode": draw(st.sampled_from(["skip", "wrap", "unchecked"])) if bal else "unchecked"}


@st.composite
def _forced_lines(draw):
    """Long (> 100 characters) multi-line plain text made of repeated identical lines; insertions from the foreign
    alphabet (without line breaks) land in some copies only. The alignment is still forced."""
    lines = draw(st.lists(st.lists(st.sampled_from(P_DRAW), min_size=4, max_size=14).map("".join), min_size=2, max_size=4))
    seq = draw(st.lists(st.integers(0, len(lines) - 1), min_size=8, max_size=16))
    plain = "\n".join(lines[i] for i in seq)
    n = len(plain)
    qidx = [i for i, q in enumerate(Q) if "\n" not in q and "\r" not in q]
    ins = draw(st.lists(st.tuples(st.integers(0, n), st.sampled_from(qidx)).map(list), min_size=1, max_size=12))
    cuts = sorted(draw(st.lists(st.integers(0, n), min_size=2, max_size=8, unique=True)))
    spans = [[cuts[i], cuts[i + 1]] for i in range(0, len(cuts) - 1, 2)]
    return {"kind": "forced", "plain": plain, "ins": ins, "spans": spans, "rev": draw(st.booleans()), "multiline": True}


_ALPH = list("ab c.,1<>/i\n&") + ["<i>", "</i>", "  "]


@st.composite
def _pair(draw):
    a = "".join(draw(st.lists(st.sampled_from(_ALPH), max_size=20)))
    k = draw(st.integers(0, 3))
    if k == 0:
        b = "".join(draw(st.lists(st.sampled_from(_ALPH), max_size=20)))
    else:
        s = list(a)
        for _ in range(draw(st.integers(1, 5))):
            op = draw(st.integers(0, 2))
            i = draw(st.integers(0, max(0, len(s) - 1)))
            if op == 0 and s:
                del s[i]
            elif op == 1 and s:
                s[i] = draw(st.sampled_from(_ALPH))
            else:
                s.insert(i, draw(st.sampled_from(_ALPH)))
        b = "".join(s)
    return {"kind": "pair", "a": a, "b": b, "dmp": draw(st.booleans())}


def phases(tier):
    n = 20000 if tier == "quick" else 1000000
    return [
        Phase("no-source", "gen", strategy=_nosource, n=n),
        Phase("forced-alignment", "gen", strategy=_forced, n=n),
        Phase("forced-alignment-long-multiline", "gen", strategy=_forced_lines, n=n // 4),
        Phase("string-pairs", "gen", strategy=_pair, n=n),
    ]
