"""Common phases for C06/C07/C08: exhaustive alphabet sequences + lists extracted from generated documents."""
import os

from hypothesis import strategies as st

from vf import resolver_engine as E
from vf import tk
from vf.core import Phase, Raised, Res, call
from vf.gen import alphabet, legal

G = {}
MAXL = 6


def _fp(c):
    """Cheap fingerprint of everything resolution reads from a citation."""
    # every instance attribute except the (large, shared) token and edition tuples - also attributes the library might
    # add to its objects later
    return tuple(sorted((k, repr(v)) for k, v in vars(c).items() if k not in ("token", "exact_editions", "variation_editions", "all_editions")))


def setup(tier):
    tk.get(("ac",))
    G["pool"] = alphabet.build_pool(MAXL)
    G["letters"] = alphabet.LETTERS
    G["pristine"] = {l: [_fp(c) for c in objs] for l, objs in G["pool"].items()}
    G["restored"] = 0


class Seqs:
    """All sequences of exactly length L over the alphabet, decoded lazily from an index."""

    def __init__(self, L, n):
        self.L, self.n = L, n

    def __len__(self):
        return self.n ** self.L

    def __getitem__(self, i):
        seq = []
        for _ in range(self.L):
            i, r = divmod(i, self.n)
            seq.append(alphabet.LETTERS[r])
        return {"seq": seq[::-1]}


def cits_for(case):
    if "seq" in case:
        pool = G["pool"]
        if len(case["seq"]) > MAXL or any(l not in pool for l in case["seq"]):
            return None
        # Every sequence must be an independent trial: if an earlier evaluation left a pool object modified (resolution
        # is not supposed to write to the citations it is given), rebuild that letter's objects before using them.
        G["restored"] = 0
        for i, l in enumerate(case["seq"]):
            if _fp(pool[l][i]) != G["pristine"][l][i]:
                fresh = alphabet.build_pool(MAXL, only=l)[l]
                pool[l] = fresh
                G["restored"] += 1
        return [pool[l][i] for i, l in enumerate(case["seq"])]
    from eyecite import get_citations

    cs = call(get_citations, case["text"])
    if isinstance(cs, Raised):
        return None
    return cs


def seq_level(tier):
    env = os.environ.get("VERIF_L")
    if env:
        return max(1, min(MAXL, int(env)))
    return 4 if tier == "quick" else 5


def _pool_text(idx):
    """A document citing the structurally different strings of one extractor's pattern (pages with/without a
    suffix, roman, placeholder ...) one after another: full citations that differ only slightly."""
    from eyecite.tokenizers import EXTRACTORS

    from vf.props import c16

    n = len(EXTRACTORS) - 5
    texts = c16._pattern_pool(idx % n)
    return {"text": " Then ".join(t + "." for t in texts[:12]) + " Id. at 2."}


def doc_strategy():
    from vf.props import c05

    return st.one_of(
        legal.document(hostile=False, mutate=True).map(lambda t: {"text": t}),
        c05.scenario_text().map(lambda t: {"text": t}),
        st.integers(0, 10000).map(_pool_text),
    )


_SYL = ["ka", "lo", "mi", "ren", "tov", "zen", "qua", "dri", "fel", "gor"]


def _nm(i):
    return (_SYL[i % 10] + _SYL[(i // 10) % 10] + _SYL[(i // 100) % 10] + "x").capitalize()


@st.composite
def _long_list(draw):
    """A long opinion: two early cases, each followed by an id. with a pin cite; well over a hundred other cases, each
    cited once and followed by its own id.; then the early cases again, followed by id. with pin cites that share their
    digits with the early ones but not their meaning (a range against a page number, a paragraph against a page)."""
    pins = st.sampled_from(["at 5-12", "at 512", "at 10", "at \u00b6 10", "at 1-50", "at 150", "at 15-0", "at 1, 5", "at 15", "at *10", "at 51-2"])
    early = ["Kalomix v. Rentovix, 1 U.S. 1 (1999).", "Zenquax v. Drifelix, 2 U.S. 5 (1999)."]
    parts = [f"{e} Id. {draw(pins)}." for e in early]
    n = draw(st.integers(125, 150))
    off = draw(st.integers(0, 500))
    for i in range(n):
        parts.append(f"{_nm(off + i)} v. {_nm(off + i + 500)}, {10 + i} F.2d {100 + i} (1980). Id. at {100 + i + draw(st.integers(0, 2))}.")
    for _ in range(draw(st.integers(1, 4))):
        parts.append(f"{draw(st.sampled_from(early))} Id. {draw(pins)}.")
    return {"text": " ".join(parts)}


def phases(tier, n_docs_quick=4000, n_docs_thorough=200000):
    L = seq_level(tier)
    n = len(alphabet.LETTERS)
    out = []
    for l in range(1, L + 1) if L <= 4 else [L]:
        out.append(Phase(f"alphabet-len{l}", "enum", items=(lambda l=l: Seqs(l, n)), exhaustive=True, distinct=True))
    out.append(Phase("extracted-lists", "gen", strategy=doc_strategy, n=n_docs_quick if tier == "quick" else n_docs_thorough))
    out.append(Phase("long-lists", "gen", strategy=_long_list, n=48 if tier == "quick" else 1600))
    return out


def base_labels(res, case, cits):
    from eyecite.models import FullCitation

    res.label("source:alphabet" if "seq" in case else "source:document")
    if "seq" in case and G.get("restored"):
        res.label("pool-object-was-modified-by-an-earlier-resolution")
    has_full = any(isinstance(c, FullCitation) for c in cits)
    has_non = any(not isinstance(c, FullCitation) for c in cits)
    return has_full and has_non
