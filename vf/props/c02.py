"""C02 - reported offsets index the text they claim to index."""
import re

from hypothesis import strategies as st

from vf import tk
from vf.core import Phase, Raised, Res
from vf.ext import extract, kind
from vf.gen import legal, markup
from vf.gen.inventory import NOMINATIVE_NAMES

ID = "C02"
RULE = (
    "citation-dense documents from the legal grammar (hostile fragments, character mutations, nominative party names), "
    "plain mode x {ac, hs, ref} and markup mode (marked-up grammar text + step lists containing html); validity "
    "predicate per returned citation against the text the offsets refer to. Non-trivial: >= 1 citation and at least one "
    "of {short/supra/id/reference with pin cite, nominative party name, non-ASCII character, markup mode}; "
    "distinct = distinct (input, tokenizer)"
)
ASSUMPTIONS = [
    "markup mode: offsets are judged against eyecite.clean_text(markup, steps) (cleaners are checked by C20)",
    "lone surrogates outside the domain",
]
_NOMI = re.compile("|".join(NOMINATIVE_NAMES))


def setup(tier):
    tk.get(("ac", "hs", "ref"))


def check_offsets(res, cites, text, suffix=""):
    """The C02 validity predicate (also used by C19 for reference citations)."""
    from eyecite.models import FullCaseCitation, IdCitation, ReferenceCitation, ShortCaseCitation, SupraCitation

    n = len(text)
    pinned = False
    for c in cites:
        k = kind(c)
        s0, s1 = c.span()
        f0, f1 = c.full_span()
        if not (isinstance(s0, int) and isinstance(s1, int) and isinstance(f0, int) and isinstance(f1, int)):
            res.v(f"non-int-offsets:{k}{suffix}", f"{c!r} span={c.span()} full={c.full_span()}")
            continue
        if not (0 <= f0 <= s0 <= s1 <= f1 <= n):
            which = "full-start" if not (0 <= f0 <= s0) else ("span" if not s0 <= s1 else "full-end")
            res.v(f"order:{which}:{k}{suffix}", f"{c!r} full={(f0, f1)} span={(s0, s1)} len={n}")
            continue
        mt = c.matched_text()
        if not text[s0:s1].startswith(mt):
            res.v(f"slice:{k}{suffix}", f"text[{s0}:{s1}]={text[s0:s1]!r} matched_text={mt!r}")
        p0, p1 = c.span_with_pincite()
        if not (p0 <= s0 and s1 <= p1 and 0 <= p0 and p1 <= n):
            res.v(f"pinspan-contain:{k}{suffix}", f"pinspan={(p0, p1)} span={(s0, s1)} len={n}")
            continue
        pc = getattr(c.metadata, "pin_cite", None)
        if pc:
            carries = isinstance(c, (ShortCaseCitation, SupraCitation, IdCitation, ReferenceCitation)) or (
                isinstance(c, FullCaseCitation)
                and (c.metadata.pin_cite_span_end is not None or c.metadata.pin_cite_span_start is not None)
            )
            if carries:
                if not isinstance(c, FullCaseCitation):
                    pinned = True
                if pc not in text[p0:p1]:
                    res.v(f"pin-text:{k}{suffix}", f"pin_cite={pc!r} not in text[{p0}:{p1}]={text[p0:p1]!r}")
    return pinned


def evaluate(case):
    res = Res()
    cites, text = extract(case)
    mode = "markup" if "markup" in case else "plain"
    res.label("mode:" + mode, "tokenizer:" + case.get("tokenizer", "ac"))
    if isinstance(cites, Raised):
        res.label("raised")
        return res
    pinned = check_offsets(res, cites, text)
    if cites:
        res.label("has-citation")
        src = case.get("text", case.get("markup", ""))
        feats = []
        if pinned:
            feats.append("ref-with-pin")
        if _NOMI.search(src):
            feats.append("nominative-name")
        if not src.isascii():
            feats.append("non-ascii")
        if mode == "markup":
            feats.append("markup")
        res.label(*["feat:" + f for f in feats])
        res.nontrivial = bool(feats)
    for c in cites:
        res.label("kind:" + kind(c))
    return res


def _plain(which):
    # a quarter of the documents are extracted with the other documented option set (remove_ambiguous=True)
    return st.builds(lambda t, k: {"text": t, "tokenizer": which, **({"remove_ambiguous": True} if k == 0 else {})},
                     legal.document(hostile=True), st.integers(0, 3))


def phases(tier):
    n_ac, n_other, n_mk = (12000, 2000, 3000) if tier == "quick" else (240000, 30000, 40000)
    return [
        Phase("plain-ac", "gen", strategy=lambda: _plain("ac"), n=n_ac),
        Phase("plain-hs", "gen", strategy=lambda: _plain("hs"), n=n_other),
        Phase("plain-ref", "gen", strategy=lambda: _plain("ref"), n=n_other),
        Phase("markup-ac", "gen", strategy=lambda: markup.marked_up(), n=n_mk),
    ]
