"""C03 - citations come back in document order, unique and non-overlapping; merge flow."""
import re

from hypothesis import strategies as st

from vf import tk
from vf.core import Phase, Raised, Res, call
from vf.ext import extract, kind
from vf.gen import inventory as inv
from vf.gen import legal

ID = "C03"
RULE = (
    "(a) citation-dense documents (parallel cites, short-form parallels, string cites, planted 'Name at N' mentions) "
    "and documents citing reporter strings with several candidate editions with and without a year, through get_citations "
    "with {ac, hs}, a third of them also with remove_ambiguous=True; (b) merge histories drawn as data: a document plus a list of operations "
    "add_refs(full-cite index, name field, name choice) / refilter, each executed with the documented flow "
    "extract_reference_citations + filter_citations, invariants checked after every step. Non-trivial: >= 2 citations "
    "sharing a full-span start (parallel / short-parallel pair) or containing a reference citation, or a history in "
    "which a merge added a reference citation; distinct = distinct case"
)
ASSUMPTIONS = ["histories are encoded as data (text + operation list) rather than a Hypothesis RuleBasedStateMachine so that the replay file is library-free"]
FIELDS = ["resolved_case_name_short", "resolved_case_name"]
_PLANTED = re.compile(r"((?:[A-Z][\w.'&-]*)(?: (?:v\.? )?[A-Z][\w.'&-]*)*) at \d")
_CAPS = re.compile(r"[A-Z][\w'&-]{2,}")


def setup(tier):
    tk.get(("ac", "hs"))


def check_order(res, cites, tag):
    spans = [c.span() for c in cites]
    for i in range(len(spans) - 1):
        a, b = spans[i], spans[i + 1]
        if a == b:
            res.v(f"{tag}:duplicate-span", f"{cites[i]!r} and {cites[i+1]!r} at {a}")
        elif not (a[0] <= b[0]):
            res.v(f"{tag}:order", f"{a} ({kind(cites[i])}) before {b} ({kind(cites[i+1])})")
        elif a[1] > b[0]:
            res.v(f"{tag}:overlap:{kind(cites[i])}/{kind(cites[i+1])}", f"{a} {cites[i].matched_text()!r} overlaps {b} {cites[i+1].matched_text()!r}")
    # pairwise (non-adjacent) overlap, in case order is broken too
    srt = sorted(spans)
    for a, b in zip(srt, srt[1:]):
        if a != b and a[1] > b[0] and spans == srt:
            pass  # already reported by the adjacent test above


def evaluate(case):
    from eyecite.find import extract_reference_citations
    from eyecite.helpers import filter_citations
    from eyecite.models import Document, FullCaseCitation, ReferenceCitation

    res = Res()
    text = case["text"]
    cites, _ = extract(case)
    if isinstance(cites, Raised):
        res.label("raised")
        return res
    check_order(res, cites, "extract")
    if case.get("ra"):
        # the same guarantees for the other documented option set: ambiguous resource citations removed
        ra, _ = extract({**case, "remove_ambiguous": True})
        if not isinstance(ra, Raised):
            check_order(res, ra, "extract-ra")
            res.label("remove-ambiguous")
            if len(ra) != len(cites):
                res.label("remove-ambiguous:removed-some")
    starts = [c.full_span()[0] for c in cites]
    has_parallel = len(starts) != len(set(starts))
    has_ref = any(isinstance(c, ReferenceCitation) for c in cites)
    if has_parallel:
        res.label("shared-full-span-start")
    if has_ref:
        res.label("has-reference")
    res.nontrivial = len(cites) >= 2 and (has_parallel or has_ref)
    ops = case.get("ops")
    if not ops:
        return res
    # ---- merge history
    res.label("history")
    base_nonref = [c for c in cites if not isinstance(c, ReferenceCitation)]
    fulls = [c for c in cites if isinstance(c, FullCaseCitation)]
    current = list(cites)
    first_sig = [(kind(c), c.span()) for c in cites]
    planted = [m.group(1) for m in _PLANTED.finditer(text)]
    caps = _CAPS.findall(text)
    doc = call(Document, plain_text=text, markup_text="")
    if isinstance(doc, Raised):
        res.label("raised")
        return res
    added_any = False
    for step, op in enumerate(ops):
        if op["op"] == "add_refs":
            if not fulls:
                continue
            cite = fulls[op["cite"] % len(fulls)]
            pool = []
            src = op["source"]
            if src == 0 and planted:
                pool = planted
            elif src == 1:
                pool = [p for p in (cite.metadata.plaintiff, cite.metadata.defendant) if p]
                pool = pool + [w for p in pool for w in p.split()]
            elif src == 2:
                pool = caps
            if not pool:
                pool = planted or caps
            if not pool:
                continue
            name = pool[op["name"] % len(pool)]
            setattr(cite.metadata, FIELDS[op["field"] % 2], name)
            refs = call(extract_reference_citations, cite, doc)
            if isinstance(refs, Raised):
                res.label("raised")
                return res
            merged = call(filter_citations, current + refs)
            tag = "merge"
        elif op["op"] == "inplace_merge_then_reextract":
            # the caller extends the list it got from get_citations IN PLACE, then asks for the citations of the same
            # text again: the second answer must be as well-formed as the first
            if not fulls:
                continue
            cite = fulls[op.get("cite", 0) % len(fulls)]
            refs = call(extract_reference_citations, cite, doc)
            if isinstance(refs, Raised):
                res.label("raised")
                return res
            cites.extend(refs)
            cites.reverse()
            again2, _ = extract(case)
            if isinstance(again2, Raised):
                res.label("raised")
                return res
            check_order(res, again2, "reextract")
            if [(kind(c), c.span()) for c in again2] != first_sig:
                res.v("reextract:differs-from-first-extraction", f"step {step}: {[(kind(c), c.span()) for c in again2]} vs {first_sig}")
            continue
        else:
            refs = []
            merged = call(filter_citations, list(current))
            tag = "refilter"
        if isinstance(merged, Raised):
            res.label("raised")
            return res
        check_order(res, merged, tag)
        ids = {id(c) for c in merged}
        lost = [c for c in base_nonref if id(c) not in ids]
        if lost:
            res.v(f"{tag}:lost-nonreference:{kind(lost[0])}", f"step {step}: {lost[0]!r} span={lost[0].span()} no longer in the result")
        again = call(filter_citations, list(merged))
        if isinstance(again, Raised):
            res.label("raised")
            return res
        if [id(c) for c in again] != [id(c) for c in merged]:
            res.v(f"{tag}:not-idempotent", f"step {step}: {[c.span() for c in merged]} -> {[c.span() for c in again]}")
        n_before = sum(isinstance(c, ReferenceCitation) for c in current)
        n_after = sum(isinstance(c, ReferenceCitation) for c in merged)
        if refs and n_after > n_before:
            added_any = True
        current = merged
    if added_any:
        res.label("merge-added-reference")
        res.nontrivial = True
    return res


@st.composite
def _doc_with_refs(draw):
    """Documents in which a small pool of names is reused for parties and for 'Name at N' mentions, so that
    reference citations actually occur (single names, two-word names whose suffix is a party, 'A v. B at N')."""
    pool = draw(st.lists(st.sampled_from(legal.NAMES), min_size=2, max_size=4, unique=True))
    nm = st.sampled_from(pool)
    parts = []
    n = draw(st.integers(2, 8))
    for _ in range(n):
        k = draw(st.integers(0, 11))
        if k < 3:
            parts.append(f"{draw(nm)} v. {draw(nm)}, {draw(legal.full())}")
        elif k < 4:
            parts.append(draw(legal.short_parallel()))
        elif k < 5:
            parts.append(f"{draw(nm)}, {draw(legal._num)} {draw(legal.reporter())} at {draw(legal._num)}")
        elif k < 8:
            parts.append(f"{draw(nm)} at {draw(legal._num)}")
        elif k < 9:
            parts.append(f"{draw(nm)} {draw(nm)} at {draw(legal._num)}")
        elif k < 10:
            parts.append(f"{draw(nm)} v. {draw(nm)} at {draw(legal._num)}")
        elif k < 11 and draw(st.booleans()):
            # id./supra with a pin-cite list (no 'at') ending in a comma, then a nominative reporter name used as a
            # party name directly in front of a real citation (the nominative token is popped in favour of it)
            from vf.gen.inventory import NOMINATIVE_NAMES
            lead = draw(st.sampled_from(["Id.", "Ibid.", f"{draw(nm)}, supra,", "id."]))
            pins = draw(st.sampled_from(["¶¶ 12, 15, 18,", "nn. 3, 4,", "§§ 2, 3,", "12, 15,", "pp. 4, 5, 6,"]))
            parts.append(f"{lead} {pins} {draw(st.sampled_from(NOMINATIVE_NAMES))}, {draw(legal._num)} {draw(st.sampled_from(['A.3d', 'U.S.', 'F.2d', 'U. S.']))} {draw(legal._num)} (2019)")
        elif k < 11:
            # a 'Name at N' mention whose number doubles as the volume of a following citation
            parts.append(f"{draw(nm)} at {draw(legal._num)} {draw(legal.reporter())}{draw(st.sampled_from([' ', ', ']))}{draw(legal._num)}")
        else:
            parts.append(draw(legal.fragment(hostile=False)))
        parts.append(draw(st.sampled_from(legal.SEPARATORS + ["", " ", ", ", " ("])))
    s = "".join(parts)
    if draw(st.integers(0, 3)) == 0:
        # hard-wrapped or tab-separated text: no "at" of the document stands between two plain blanks
        s = s.replace(" at ", draw(st.sampled_from(["\nat ", " at\n", "\tat\t", "\u00a0at ", " at\u00a0", "\n at\n"])))
    return s


_op = st.one_of(
    st.fixed_dictionaries({"op": st.just("add_refs"), "cite": st.integers(0, 7), "field": st.integers(0, 1),
                           "source": st.sampled_from([0, 0, 0, 1, 2]), "name": st.integers(0, 30)}),
    st.fixed_dictionaries({"op": st.just("add_refs"), "cite": st.integers(0, 7), "field": st.integers(0, 1),
                           "source": st.sampled_from([0, 0, 0, 1, 2]), "name": st.integers(0, 30)}),
    st.just({"op": "refilter"}),
    st.fixed_dictionaries({"op": st.just("inplace_merge_then_reextract"), "cite": st.integers(0, 7)}),
)


def _history():
    return st.builds(lambda t, ops: {"text": t, "ops": ops}, st.one_of(_doc_with_refs(), legal.document(hostile=True)),
                     st.lists(_op, min_size=1, max_size=8))


@st.composite
def _ambiguous_doc(draw):
    """Documents in which reporter strings with several candidate editions occur with and without a year."""
    reps = draw(st.lists(st.sampled_from(inv.multi_candidate_strings()), min_size=1, max_size=2))
    out = []
    for _ in range(draw(st.integers(2, 6))):
        r = draw(st.sampled_from(reps))
        v, p = draw(st.integers(1, 30)), draw(st.integers(1, 300))
        k = draw(st.integers(0, 5))
        if k == 0:
            out.append(f"Foo v. Bar, {v} {r} {p} ({draw(st.sampled_from(['1790', '1850', '1890', '1950', '2005']))})")
        elif k == 1:
            out.append(f"{v} {r} {p}")
        elif k == 2:
            out.append(f"{v} {r} at {p}")
        elif k == 3:
            out.append(draw(legal.fragment(hostile=False)))
        elif k == 4:
            out.append(f"Bar at {p}")
        else:
            out.append(draw(st.sampled_from(["Id. at 5", "2 U.S. 3", "4 F.2d 6 (1999)", "Bar, supra, at 7"])))
    return draw(st.sampled_from([". ", "; ", ". See "])).join(out) + "."


def _docs(which):
    return st.builds(lambda t, ra: {"text": t, "tokenizer": which, "ra": ra},
                     st.one_of(legal.document(hostile=True), _doc_with_refs(), _ambiguous_doc()), st.integers(0, 2).map(lambda k: k == 0))


def phases(tier):
    n_doc, n_hs, n_hist = (10000, 2000, 6000) if tier == "quick" else (200000, 30000, 100000)
    return [
        Phase("docs-ac", "gen", strategy=lambda: _docs("ac"), n=n_doc),
        Phase("docs-hs", "gen", strategy=lambda: _docs("hs"), n=n_hs),
        Phase("histories", "gen", strategy=_history, n=n_hist),
    ]
