"""C12 - the token stream partitions the text (three tokenizers)."""
from hypothesis import strategies as st

from vf import tk
from vf.core import Phase, Raised, Res, call
from vf.gen import legal

ID = "C12"
RULE = (
    "documents from the legal-text grammar (hostile fragments + character mutations, nominative reporter names as "
    "parties, section signs, id/supra beside stop words) x {reference, Aho-Corasick, Hyperscan}; a case is "
    "non-trivial when the reference tokenizer's raw candidate set contains an overlapping pair of tokens (so a "
    "token had to be dropped, merged or popped); distinct = distinct (text, tokenizer)"
)
ASSUMPTIONS = [
    "lone surrogates are outside the domain (cannot be UTF-8 encoded for Hyperscan)",
    "Hyperscan tokenizer is built without a cache directory",
]
TOK = {}


def setup(tier):
    TOK.update(tk.get(("ref", "ac", "hs")))


def _overlapping_candidates(text):
    toks = call(lambda: sorted(TOK["ac"].extract_tokens(text), key=lambda m: (m.start, -m.end)))
    if isinstance(toks, Raised):
        return False
    end = -1
    for t in toks:
        if t.start < end:
            return True
        end = max(end, t.end)
    return False


def evaluate(case):
    text = case["text"]
    which = case.get("tokenizer", "ac")
    res = Res()
    res.label("tokenizer:" + which)
    out = call(TOK[which].tokenize, text)
    if isinstance(out, Raised):
        res.label("raised")  # exceptions are C04's business
        return res
    all_tokens, cit = out
    if "".join(str(t) for t in all_tokens) != text:
        res.v("concat:" + which, f"tokens concatenate to {''.join(str(t) for t in all_tokens)!r}")
    last_end = 0
    last_idx = -1
    for idx, tok in cit:
        if not (0 <= idx < len(all_tokens)) or all_tokens[idx] is not tok:
            res.v("index:" + which, f"index {idx} does not point at {tok!r}")
            continue
        if not (0 <= tok.start <= tok.end <= len(text)) or text[tok.start : tok.end] != str(tok):
            res.v("offsets:" + which, f"{tok!r} vs slice {text[tok.start:tok.end]!r}")
        if tok.start < last_end:
            res.v("overlap:" + which, f"{tok!r} starts before {last_end}")
        if idx <= last_idx:
            res.v("index-order:" + which, f"{idx} after {last_idx}")
        last_end = max(last_end, tok.end)
        last_idx = idx
    special = [i for i, t in enumerate(all_tokens) if not isinstance(t, str)]
    if special != [i for i, _ in cit]:
        res.v("index-set:" + which, f"special at {special[:20]} listed {[i for i, _ in cit][:20]}")
    if cit:
        res.label("has-special")
    if _overlapping_candidates(text):
        res.nontrivial = True
        res.label("overlapping-candidates")
    return res


def _cases(which, hostile=True):
    return legal.document(hostile=hostile).map(lambda t: {"text": t, "tokenizer": which})


def phases(tier):
    n_ac, n_other = (6000, 2000) if tier == "quick" else (500000, 100000)
    return [
        Phase("docs-ac", "gen", strategy=lambda: _cases("ac"), n=n_ac),
        Phase("docs-hs", "gen", strategy=lambda: _cases("hs"), n=n_other),
        Phase("docs-ref", "gen", strategy=lambda: _cases("ref"), n=n_other),
    ]
