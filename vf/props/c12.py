"""C12 - the token stream partitions the text (three tokenizers)."""
from hypothesis import strategies as st

from vf import tk
from vf.core import Phase, Raised, Res, call
from vf.gen import legal

ID = "C12"
RULE = (
    "documents from the legal-text grammar (hostile fragments + character mutations, nominative reporter names as "
    "parties, section signs, id/supra beside stop words) x {reference, Aho-Corasick, Hyperscan}; a case is "
    "non-trivial when the reference tokenizer's raw candidate set contains an overlapping pair of tokens (so a "
    "token had to be dropped, merged or popped); plus an enumerated family of long documents (4K ... 70K characters, "
    "thorough 300K: four line shapes x fifteen separators incl. every kind of line break x {ac, hs, ref up to 10K}), "
    "non-trivial when they contain a special token; distinct = distinct (text, tokenizer)"
)
ASSUMPTIONS = [
    "lone surrogates are outside the domain (cannot be UTF-8 encoded for Hyperscan)",
    "Hyperscan tokenizer is built without a cache directory",
]
TOK = {}


def setup(tier):
    TOK.update(tk.get(("ref", "ac", "hs")))


def _overlapping_candidates(text):
    toks = call(lambda: sorted(TOK["ac"].extract_tokens(text), key=lambda m: (m.start, -m.end)))
    if isinstance(toks, Raised):
        return False
    end = -1
    for t in toks:
        if t.start < end:
            return True
        end = max(end, t.end)
    return False


def evaluate(case):
    which = case.get("tokenizer", "ac")
    res = Res()
    if case.get("kind") == "long":
        # long documents described compactly: `line` + `sep`, repeated
        if not (isinstance(case.get("reps"), int) and 0 < case["reps"] <= 50000):
            res.label("out-of-domain")
            return res
        text = (case["line"] + case["sep"]) * case["reps"]
        res.label("long-document")
    else:
        text = case["text"]
    res.label("tokenizer:" + which)
    out = call(TOK[which].tokenize, text)
    if isinstance(out, Raised):
        res.label("raised")  # exceptions are C04's business
        return res
    all_tokens, cit = out
    if "".join(str(t) for t in all_tokens) != text:
        joined = "".join(str(t) for t in all_tokens)
        k = next((i for i, (x, y) in enumerate(zip(joined, text)) if x != y), min(len(joined), len(text)))
        res.v("concat:" + which, f"tokens concatenate to {joined!r}" if len(text) < 400 else f"first difference at offset {k}: tokens {joined[max(0, k - 10):k + 20]!r} text {text[max(0, k - 10):k + 20]!r} (length {len(text)})")
    last_end = 0
    last_idx = -1
    for idx, tok in cit:
        if not (0 <= idx < len(all_tokens)) or all_tokens[idx] is not tok:
            res.v("index:" + which, f"index {idx} does not point at {tok!r}")
            continue
        if not (0 <= tok.start <= tok.end <= len(text)) or text[tok.start : tok.end] != str(tok):
            res.v("offsets:" + which, f"{tok!r} vs slice {text[tok.start:tok.end]!r}")
        if tok.start < last_end:
            res.v("overlap:" + which, f"{tok!r} starts before {last_end}")
        if idx <= last_idx:
            res.v("index-order:" + which, f"{idx} after {last_idx}")
        last_end = max(last_end, tok.end)
        last_idx = idx
    special = [i for i, t in enumerate(all_tokens) if not isinstance(t, str)]
    if special != [i for i, _ in cit]:
        res.v("index-set:" + which, f"special at {special[:20]} listed {[i for i, _ in cit][:20]}")
    if cit:
        res.label("has-special")
    if case.get("kind") == "long":
        res.nontrivial = bool(cit)
        return res
    if _overlapping_candidates(text):
        res.nontrivial = True
        res.label("overlapping-candidates")
    return res


LONG_LINES = ["See Foo v. Bar, 1 U.S. 1, 5 (1999). Id. at 6.", "Smith, supra, at 7; 2 F.2d at 9 \u00a7 5", "Compare Thompson v. Holmes, 3 Cranch 12 (1805) \u2014 caf\u00e9", "x"]
LONG_SEPS = ["\r\n", "\n", "\r", "\x0b", "\x0c", "\x1c", "\x85", "\u2028", "\u2029", " \r\n ", "\n\n", " ", "\t", "\u00a0", ""]


def _long_items(tier):
    """Documents beyond any plausible internal length threshold (4K ... 70K characters; thorough 300K), with every kind
    of line break."""
    sizes = [4100, 10100, 33000, 70000] if tier == "quick" else [4100, 10100, 33000, 70000, 140000, 300000]
    out = []
    for line in LONG_LINES:
        for sep in LONG_SEPS:
            for size in sizes:
                reps = max(1, size // (len(line) + len(sep) or 1))
                for which in ("ac", "hs") + (("ref",) if size <= 10100 else ()):
                    out.append({"kind": "long", "line": line, "sep": sep, "reps": reps, "tokenizer": which})
    return out


def _cases(which, hostile=True):
    return legal.document(hostile=hostile).map(lambda t: {"text": t, "tokenizer": which})


def phases(tier):
    n_ac, n_other = (6000, 2000) if tier == "quick" else (200000, 40000)
    return [
        Phase("long-documents", "enum", items=lambda: _long_items(tier), exhaustive=True, distinct=True, chunk=4),
        Phase("docs-ac", "gen", strategy=lambda: _cases("ac"), n=n_ac),
        Phase("docs-hs", "gen", strategy=lambda: _cases("hs"), n=n_other),
        Phase("docs-ref", "gen", strategy=lambda: _cases("ref"), n=n_other),
    ]
