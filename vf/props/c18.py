"""C18 - year and edition guesses are sound; disambiguation only removes."""
import datetime

from hypothesis import strategies as st

from vf import tk
from vf.core import Phase, Raised, Res
from vf.ext import extract, kind
from vf.gen import inventory as inv
from vf.gen import legal

ID = "C18"
RULE = (
    "(a) enumerated: every plain reporter string with >= 2 candidate editions and a sample of single-candidate and "
    "law/journal strings x boundary years (1599/1600, this year -1/+0/+1/+2, each candidate edition's start/end +-1) x "
    "year positions (after the cite, California style before it, with court, in brackets, as a range); (b) generated "
    "hostile documents. Oracle: year range/prefix clause, guess in candidates, single candidate => guessed, several "
    "candidates + guess + own year => unique year-compatible candidate (re-implemented from reporters-db dates), "
    "remove_ambiguous == filter of the default run. Non-trivial: a resource citation with >= 2 candidate editions or a "
    "year within 1 of a range boundary; distinct = distinct text"
)
ASSUMPTIONS = ["'today' is read once per process from the system clock, as eyecite does"]
TODAY = datetime.date.today().year


def setup(tier):
    tk.get(("ac", "hs", "ref"))


def _ok_editions(cand, year):
    return [e for e in cand if (e.start is None or e.start.year <= year) and (e.end is None or e.end.year >= year) and year <= TODAY]


def evaluate(case):
    from eyecite.models import FullCaseCitation, ResourceCitation

    res = Res()
    cites, text = extract(case)
    if isinstance(cites, Raised):
        res.label("raised")
        return res
    nontrivial = False
    for c in cites:
        if not isinstance(c, ResourceCitation):
            continue
        k = kind(c)
        my = c.metadata.year
        if c.year is not None:
            if not isinstance(c.year, int) or not (1600 <= c.year <= TODAY + 1):
                res.v(f"year-out-of-range:{k}", f"{c!r} year={c.year!r}")
            if not my or _num4(my) != c.year:
                res.v(f"year-mismatch:{k}", f"{c!r} year={c.year!r} metadata.year={my!r}")
            if isinstance(c.year, int) and min(abs(c.year - b) for b in (1600, TODAY + 1)) <= 1:
                nontrivial = True
        cand = list(dict.fromkeys(c.exact_editions or c.variation_editions))  # distinct candidate editions
        g = c.edition_guess
        if len(cand) >= 2:
            nontrivial = True
            res.label("multi-candidate")
        if g is not None and g not in cand:
            res.v(f"guess-not-candidate:{k}", f"{c!r} guess={g.short_name!r} candidates={[e.short_name for e in cand]}")
        if len(cand) == 1 and g is None:
            res.v(f"single-candidate-not-guessed:{k}", f"{c!r}")
        own = not any(
            isinstance(d, FullCaseCitation) and d is not c and d.full_span()[0] == c.full_span()[0] and d.span()[0] < c.span()[0]
            for d in cites
        )
        if len(cand) > 1 and own:
            if g is not None:
                if c.year is None:
                    res.v(f"guess-without-year:{k}", f"{c!r} guess={g.short_name!r} among {[e.short_name for e in cand]} but year is None")
                elif isinstance(c.year, int):
                    ok = _ok_editions(cand, c.year)
                    if ok != [g]:
                        res.v(f"guess-not-unique:{k}", f"{c!r} year={c.year} guess={g.short_name!r} compatible={[e.short_name for e in ok]}")
        if len(cand) > 1 and g is None and own and isinstance(c.year, int):
            res.label("ambiguous-unguessed")
    ra, _ = extract({**case, "remove_ambiguous": True})
    if isinstance(ra, Raised):
        res.label("raised")
    else:
        exp = [c for c in cites if not isinstance(c, ResourceCitation) or c.edition_guess]
        sig = lambda cs: [(kind(c), c.span(), c.full_span(), tuple(sorted((k, v) for k, v in c.groups.items() if v)), getattr(getattr(c, "edition_guess", None), "short_name", None)) for c in cs]
        if sig(ra) != sig(exp):
            res.v("remove-ambiguous-differs", f"default-filtered={sig(exp)} remove_ambiguous={sig(ra)}")
        if len(exp) != len(cites):
            res.label("removed-some")
    res.nontrivial = nontrivial
    return res


def _num4(text):
    """Numeric value of the leading four digits of a textual year (any decimal digit script), else None."""
    import unicodedata
    try:
        v = 0
        for ch in text[:4]:
            v = v * 10 + unicodedata.decimal(ch)
        return v if len(text) >= 4 else None
    except ValueError:
        return None


_DIGIT_ZEROS = [0x0660, 0x06F0, 0x0966, 0xFF10, 0x1D7CE]  # Arabic-Indic, extended Arabic-Indic, Devanagari, fullwidth, mathematical bold


def _script_year_items():
    """Years written partly or wholly in another decimal digit script (OCR, copy and paste): \\d matches them and int()
    converts them, so they are years like any other and the range clause applies to their value."""
    items = []
    for y in (1123, 1234, 1599, 1600, 1999, TODAY + 1, TODAY + 2, 2999, 999):
        ys = f"{y:04d}"
        for z in _DIGIT_ZEROS:
            for mask in (0b1111, 0b0111, 0b0001, 0b1000, 0b0110):
                w = "".join(chr(z + int(ch)) if (mask >> (3 - i)) & 1 else ch for i, ch in enumerate(ys))
                for t in (f"Foo v. Bar, 12 U.S. 34 ({w}).", f"Foo v. Bar ({w}) 12 Cal. 34.", f"12 F.2d 34 (4th Cir. {w}) and so on",
                          f"77 Marq. L. Rev. 475 ({w})", f"Wis. Stat. \u00a7 655.002 ({w})", f"See 12 F. 34 [{w}];"):
                    items.append({"text": t, "tokenizer": "ac"})
    return items


def _boundary_years(string):
    ys = {1599, 1600, 1601, TODAY - 1, TODAY, TODAY + 1, TODAY + 2, 1900}
    for e, _ in inv.users(string):
        for y in (e.start_year, e.end_year):
            if y:
                ys.update((y - 1, y, y + 1))
    return sorted(ys)


def _enum_items(tier):
    strings = list(inv.multi_candidate_strings())
    singles = [s for s in inv.plain_strings() if s not in set(strings)]
    step = 40 if tier == "quick" else 4
    strings += singles[::step]
    items = []
    for s in strings:
        for y in _boundary_years(s):
            forms = [
                f"Foo v. Bar, 12 {s} 34 ({y}).",
                f"Foo v. Bar ({y}) 12 {s} 34.",
                f"12 {s} 34 (4th Cir. {y}) and so on",
                f"See 12 {s} 34 [{y}];",
                f"12 {s} 34, 36 ({y}-{(y + 1) % 100:02d}) (noting)",
                f"Foo v. Bar, 1 U.S. 1, 12 {s} 34 ({y}).",
                f"12 {s} at 36 ({y})",
            ]
            for t in forms:
                items.append({"text": t, "tokenizer": "ac"})
    return items + _script_year_items()


@st.composite
def _ref_overlap_doc(draw):
    """A named full citation, then 'Party at N' directly in front of a citation whose reporter string has several
    candidate editions (with or without a year): the reference overlaps the following citation's full span."""
    a, b = draw(st.sampled_from(["Kalomi", "Foo", "Zenqua", "Roe"])), draw(st.sampled_from(["Rentov", "Bar", "Drifel", "Wade"]))
    amb = st.sampled_from(inv.multi_candidate_strings())
    n = st.integers(1, 999).map(str)
    parts = [f"{a} v. {b}, {draw(n)} {draw(st.sampled_from(['U.S.', 'F.2d', 'F.3d']))} {draw(n)} ({draw(st.integers(1950, 2010))})."]
    for _ in range(draw(st.integers(1, 3))):
        k = draw(st.integers(0, 4))
        party = draw(st.sampled_from([a, b]))
        year = draw(st.sampled_from(["", "", f" ({draw(st.integers(1800, 2020))})"]))
        if k < 3:
            parts.append(f"{draw(st.sampled_from(['', 'In ', 'See ']))}{party} at {draw(n)}, {draw(n)} {draw(amb)} {draw(n)}{year}.")
        elif k == 3:
            parts.append(f"{party} at {draw(n)}.")
        else:
            parts.append(f"{draw(n)} {draw(amb)} {draw(n)}{year}.")
    return {"text": " ".join(parts), "tokenizer": "ac"}


def phases(tier):
    n = 8000 if tier == "quick" else 150000
    return [
        Phase("boundary-years", "enum", items=lambda: _enum_items(tier), exhaustive=True),
        Phase("docs", "gen", strategy=lambda: legal.document(hostile=True).map(lambda t: {"text": t, "tokenizer": "ac"}), n=n),
        Phase("reference-overlaps-ambiguous", "gen", strategy=_ref_overlap_doc, n=n // 4),
        Phase("docs-hs", "gen", strategy=lambda: legal.document(hostile=True).map(lambda t: {"text": t, "tokenizer": "hs"}), n=n // 8),
        Phase("docs-ref", "gen", strategy=lambda: legal.document(hostile=True).map(lambda t: {"text": t, "tokenizer": "ref"}), n=n // 16),
    ]
