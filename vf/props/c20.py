"""C20 - cleaning is composable, idempotent and content-preserving."""
import html as H

from hypothesis import strategies as st

from vf.core import Phase, Raised, Res, call

ID = "C20"
RULE = (
    "(a) all strings over a hostile alphabet (every kind of str.isspace() character, underscore runs, tabs, non-ASCII, "
    "markup characters) x step lists over the three text cleaners (names and callables, incl. an unknown name): "
    "clean_text(t, [a, b, ...]) == b(a(t)); unknown name => ValueError; each cleaner idempotent and equal to a "
    "character-by-character reference scanner (maximal runs of [ \\t] / str.isspace() replaced by one space; runs of "
    ">= 2 underscores deleted). (b) generated HTML element trees (nested inline/block elements, script/style content, "
    "entities, whitespace-only nodes): html() equals the visible text nodes known from the generator, joined by single "
    "spaces. Non-trivial: (a) the input contains a run the cleaner must collapse; (b) the tree has a hidden element or "
    "an entity; distinct = distinct case. (c) long texts (256 ... 200,000 characters; thorough: 10^6) in which a whitespace or "
    "underscore run straddles a power-of-two / round offset, against the same reference scanners (all are non-trivial)"
)
ASSUMPTIONS = [
    "HTML trees avoid constructs the HTML parser restructures (nested <a>, block inside <p>, tables): a generator-soundness rule",
    "re's \\s and str.isspace() agree on every code point (verified at start-up)",
]
TEXT_CLEANERS = ["inline_whitespace", "all_whitespace", "underscores"]
WS = [" ", "\t", "\n", "\r", "\x0b", "\x0c", "\x1c", "\x1d", "\x1e", "\x1f", "\x85", " ", " ", " ", " ", " ", " ", "　"]
ALPH = WS + list("ab1._<>&§é") + ["__", "___", "_", "  ", " \t", "\r\n", "U.S."]
INLINE = ["i", "em", "b", "span", "u", "strong"]
BLOCKS = ["div", "blockquote", "section"]
LEAFBLOCK = ["p", "h2", "li"]
HIDDEN = ["script", "style"]
CH = list("abc XYZ 012 .,;§é“”&<>'\"") + ["\n", "\t", " ", "  ", "\u00a0", "\u2003"]
XMLWS = " \t\r\n"


def setup(tier):
    import re
    from vf.core import HarnessError

    bad = [cp for cp in range(0x110000) if not (0xD800 <= cp <= 0xDFFF) and bool(re.fullmatch(r"\s", chr(cp))) != chr(cp).isspace()]
    if bad:
        raise HarnessError(f"re \\s and str.isspace disagree on {bad[:5]}")


# ---- reference scanners written character by character (no re)


def ref_collapse(t, pred):
    out = []
    in_run = False
    for ch in t:
        if pred(ch):
            if not in_run:
                out.append(" ")
            in_run = True
        else:
            out.append(ch)
            in_run = False
    return "".join(out)


def ref_underscores(t):
    out = []
    i = 0
    while i < len(t):
        if t[i] == "_":
            j = i
            while j < len(t) and t[j] == "_":
                j += 1
            if j - i == 1:
                out.append("_")
            i = j
        else:
            out.append(t[i])
            i += 1
    return "".join(out)


REF = {
    "inline_whitespace": lambda t: ref_collapse(t, lambda ch: ch in " \t"),
    "all_whitespace": lambda t: ref_collapse(t, str.isspace),
    "underscores": ref_underscores,
}


def _rev(t):
    return t[::-1]


CALLABLES = {"<reverse>": _rev, "<upper>": str.upper}


def evaluate(case):
    from eyecite import clean_text
    from eyecite import clean as C

    res = Res()
    if case["kind"] in ("text", "long"):
        if case["kind"] == "long":
            # a long text described compactly: `run` placed so that it starts `j` characters before offset `at`
            at, j, run = case["at"], case["j"], case["run"]
            if not (0 <= j <= len(run) and at - j >= 0 and run):
                res.label("out-of-domain")
                return res
            t = "a" * (at - j) + run + "b" * 40 + run + "é" * 25
            steps = list(TEXT_CLEANERS)
            res.label("long-text")
        else:
            t = case["text"]
            steps = case["steps"]
        real_steps = [CALLABLES.get(s, s) for s in steps]
        unknown = [s for s in steps if s not in TEXT_CLEANERS and s not in CALLABLES]
        out = call(clean_text, t, real_steps)
        if unknown:
            res.label("unknown-step")
            if not (isinstance(out, Raised) and out.type == "ValueError"):
                res.v("unknown-step-accepted", f"steps={steps} -> {out!r}")
            res.nontrivial = True
            return res
        if isinstance(out, Raised):
            res.v("clean_text-raises:" + out.bucket(), f"{out!r} text={t!r} steps={steps}")
            return res
        exp = t
        for s in steps:
            f = CALLABLES.get(s) or getattr(C, s)
            exp = call(f, exp)
            if isinstance(exp, Raised):
                res.v("cleaner-raises:" + exp.bucket(), f"{s} on {t!r}")
                return res
        if case["kind"] == "long":
            d = f"{at - j} x 'a' + {run!r} + 40 x 'b' + {run!r} + 25 x 'é'"
            if out != exp:
                res.v("not-composable", f"{d}: clean_text differs from sequential application")
            for name in TEXT_CLEANERS:
                once = call(getattr(C, name), t)
                ref = REF[name](t)
                if isinstance(once, Raised):
                    res.v(f"cleaner-raises:{name}:" + once.bucket(), d)
                elif once != ref:
                    k = next((i for i, (x, y) in enumerate(zip(once, ref)) if x != y), min(len(once), len(ref)))
                    res.v(f"differs-from-reference:{name}", f"{d}: first difference at output offset {k}: cleaner {once[max(0, k - 3): k + 6]!r} reference {ref[max(0, k - 3): k + 6]!r}")
                elif call(getattr(C, name), once) != once:
                    res.v(f"not-idempotent:{name}", d)
            res.nontrivial = True
            return res
        if out != exp:
            res.v("not-composable", f"clean_text({t!r}, {steps}) = {out!r} but sequential application gives {exp!r}")
        run = False
        for name in TEXT_CLEANERS:
            f = getattr(C, name)
            once = call(f, t)
            if isinstance(once, Raised):
                res.v(f"cleaner-raises:{name}:" + once.bucket(), f"{t!r}")
                continue
            twice = call(f, once)
            if twice != once:
                res.v(f"not-idempotent:{name}", f"{t!r} -> {once!r} -> {twice!r}")
            ref = REF[name](t)
            if once != ref:
                res.v(f"differs-from-reference:{name}", f"{t!r}: cleaner {once!r} reference {ref!r}")
            if ref != t:
                run = True
        res.nontrivial = run
        return res
    # ---- html trees
    tree = case["tree"]
    if not _valid(tree):
        res.label("out-of-domain")
        return res
    s = ser(tree)
    exp = []
    walk(tree, exp)
    if not s.strip():
        res.label("empty-document")
        return res
    got = call(C.html, s)
    if isinstance(got, Raised):
        if not exp and got.type in ("ParserError", "XMLSyntaxError"):
            res.label("no-visible-content")  # lxml refuses documents without any element/text content
            return res
        res.v("html-raises:" + got.bucket(), f"{got!r} for {s!r}")
        return res
    if got != " ".join(exp):
        res.v("html-visible-text-differs", f"{s!r}: html() -> {got!r}, visible text nodes are {exp!r}")
    res.nontrivial = ("<script>" in s or "<style>" in s or "&" in s)
    if res.nontrivial:
        res.label("hidden-or-entity")
    return res


def _valid(nodes, d=0):
    if not isinstance(nodes, list) or d > 8:
        return False
    for n in nodes:
        if not isinstance(n, list) or not n:
            return False
        if n[0] == "t":
            if len(n) != 2 or not isinstance(n[1], str):
                return False
        elif n[0] == "h":
            if len(n) != 3 or n[1] not in HIDDEN or not isinstance(n[2], str) or "<" in n[2] or "&" in n[2]:
                return False
        elif n[0] == "c":  # comment
            if len(n) != 2 or not isinstance(n[1], str) or "--" in n[1] or ">" in n[1] or "<" in n[1]:
                return False
        elif n[0] == "v":  # void element
            if len(n) != 2 or n[1] not in ("br", "hr", "img"):
                return False
        elif n[0] == "e":
            if len(n) != 3 or n[1] not in INLINE + BLOCKS + LEAFBLOCK or not _valid(n[2], d + 1):
                return False
        else:
            return False
    return True


def ser(nodes):
    s = ""
    for n in nodes:
        if n[0] == "t":
            s += H.escape(n[1], quote=False)
        elif n[0] == "h":
            s += f"<{n[1]}>{n[2]}</{n[1]}>"
        elif n[0] == "c":
            s += f"<!--{n[1]}-->"
        elif n[0] == "v":
            s += f"<{n[1]}/>" if len(n[1]) % 2 else f"<{n[1]}>"
        else:
            attr = ' class="x y"' if len(n[2]) % 2 else ""
            s += f"<{n[1]}{attr}>" + ser(n[2]) + f"</{n[1]}>"
    return s


def walk(nodes, exp):
    """DOM text nodes = maximal runs of adjacent text siblings; visible if not whitespace-only."""
    buf = ""
    for n in nodes:
        if n[0] == "t":
            buf += n[1]
        else:
            if buf.strip(XMLWS):
                exp.append(buf)
            buf = ""
            if n[0] == "e":
                walk(n[2], exp)
    if buf.strip(XMLWS):
        exp.append(buf)


_txt = st.lists(st.sampled_from(CH), max_size=8).map("".join)
_hidden_body = st.lists(st.sampled_from(list("abc XYZ.;{}=")), max_size=6).map("".join)


def _inline(depth):
    leaf = st.one_of(st.tuples(st.just("t"), _txt).map(list), st.tuples(st.just("t"), _txt).map(list),
                     st.tuples(st.just("t"), _txt).map(list), st.tuples(st.just("t"), _txt).map(list),
                     st.tuples(st.just("h"), st.sampled_from(HIDDEN), _hidden_body).map(list),
                     st.tuples(st.just("c"), st.sampled_from([" a comment ", "x", " 1 U.S. 1 "])).map(list),
                     st.tuples(st.just("v"), st.sampled_from(["br", "hr", "img"])).map(list))
    if depth <= 0:
        return st.lists(leaf, min_size=1, max_size=3)
    return st.lists(st.one_of(leaf, leaf, st.tuples(st.just("e"), st.sampled_from(INLINE), st.deferred(lambda: _inline(depth - 1))).map(list)), min_size=1, max_size=3)


def _block(depth):
    leafb = st.tuples(st.just("e"), st.sampled_from(LEAFBLOCK), _inline(2)).map(list)
    if depth <= 0:
        return st.lists(leafb, min_size=1, max_size=3)
    return st.lists(st.one_of(leafb, st.tuples(st.just("e"), st.sampled_from(BLOCKS), st.deferred(lambda: _block(depth - 1))).map(list)), min_size=1, max_size=3)


def _many_runs():
    """Texts with many separate runs (5-40) of each kind: a cleaner that handles only the first few is exposed."""
    run = st.sampled_from(["__", "___", "_____", "  ", "\t\t", " \n ", "\u00a0\u00a0", " \t ", "\r\n\r\n"])
    word = st.sampled_from(["a", "b1", "U.S.", "x", "§", "é", "_", " ", "\n"])
    return st.lists(st.tuples(word, run).map(lambda t: t[0] + t[1]), min_size=5, max_size=40).map("".join)


def _text_case():
    steps = st.lists(st.sampled_from(TEXT_CLEANERS + TEXT_CLEANERS + ["<reverse>", "<upper>"]), max_size=4)
    steps = st.one_of(steps, steps, steps, st.tuples(steps, st.sampled_from(["bogus", "HTML", "whitespace", ""])).map(lambda x: x[0] + [x[1]]))
    return st.builds(lambda t, s: {"kind": "text", "text": t, "steps": s}, st.one_of(st.lists(st.sampled_from(ALPH), max_size=30).map("".join), st.lists(st.sampled_from(ALPH), max_size=30).map("".join), _many_runs()), steps)


def _long_cases(tier):
    """Runs straddling offsets at which a block-wise or buffered implementation would split its input."""
    ats = [2 ** k for k in range(8, 18)] + [1000, 10000, 100000, 3 * 65536]
    if tier != "quick":
        ats += [k * 65536 for k in (4, 5, 8, 16)] + [2 ** 20, 10 ** 6]
    out = []
    for at in ats:
        for run in ["  ", " \n ", "\t\t", "___", "__", "\u00a0\u2003", "\r\n"]:
            for j in range(len(run) + 1):
                out.append({"kind": "long", "at": at, "j": j, "run": run})
    return out


def phases(tier):
    n, n2 = (30000, 6000) if tier == "quick" else (1000000, 200000)
    return [
        Phase("long-texts", "enum", items=lambda: _long_cases(tier), exhaustive=True, distinct=True),
        Phase("text-cleaners", "gen", strategy=_text_case, n=n),
        Phase("html-trees", "gen", strategy=lambda: _block(2).map(lambda t: {"kind": "html", "tree": t}), n=n2),
    ]
