"""Shared engine for C06 / C07 / C08: oracles over resolve_citations(list)."""
import re

from vf.core import Raised, Res, call

MAX_PAGES = 150  # the plausibility window of the statement: [first page, first page + 150]


def resolve(cits):
    from eyecite import resolve_citations

    return call(resolve_citations, list(cits))


def groups_as_indices(cits, res):
    idx = {id(c): i for i, c in enumerate(cits)}
    out = []
    for key, lst in res.items():
        out.append([idx.get(id(c), -1) for c in lst])
    return out


def independent_equal(a, b):
    """Equality of two full citations decided without __eq__/__hash__ (C06, C16)."""
    from eyecite.models import CaseCitation

    if a is b:
        return True
    if type(a) is not type(b):
        return False
    ga, gb = a.groups, b.groups
    if _placeholder_page(a) or _placeholder_page(b):
        return False
    if isinstance(a, CaseCitation):
        return (ga.get("volume"), ga.get("page")) == (gb.get("volume"), gb.get("page")) and a.corrected_reporter() == b.corrected_reporter() \
            and ("volume" in ga) == ("volume" in gb) and ("page" in ga) == ("page" in gb)
    return dict(ga) == dict(gb) and set(a.all_editions) == set(b.all_editions)


def kind(c):
    return type(c).__name__


def _placeholder_page(c):
    """A known missing page, decided from the written text (a page of underscores), not from eyecite's own flag."""
    if "page" not in c.groups:
        return False
    page = c.groups["page"]
    if page is None:
        return True
    return bool(re.fullmatch(r"_+", page))


def check_c06(res_obj, cits, out):
    from eyecite.models import FullCitation, UnknownCitation

    ids = {id(c): i for i, c in enumerate(cits)}
    seen = {}
    lists = list(out.values())
    for li, lst in enumerate(lists):
        if not lst:
            res_obj.v("empty-list", f"list {li} is empty")
            continue
        last = -1
        for c in lst:
            i = ids.get(id(c))
            if i is None:
                res_obj.v("invented-citation", f"{c!r} is not an input object")
                continue
            if id(c) in seen:
                res_obj.v(f"repeated-citation:{kind(c)}", f"input #{i} {c!r} listed under lists {seen[id(c)]} and {li}")
            seen[id(c)] = li
            if i <= last:
                res_obj.v("not-input-order", f"list {li}: index {i} after {last}")
            last = i
            if isinstance(c, UnknownCitation):
                res_obj.v("unknown-citation-resolved", f"{c!r}")
        if not isinstance(lst[0], FullCitation):
            res_obj.v(f"list-not-starting-with-full:{kind(lst[0])}", f"list {li} starts with {lst[0]!r}")
    fulls = [(i, c) for i, c in enumerate(cits) if isinstance(c, FullCitation)]
    for i, c in fulls:
        if id(c) not in seen:
            res_obj.v(f"full-citation-missing:{kind(c)}", f"input #{i} {c!r} under no resource")
    for x in range(len(fulls)):
        for y in range(x + 1, len(fulls)):
            (i, a), (j, b) = fulls[x], fulls[y]
            if id(a) not in seen or id(b) not in seen:
                continue
            same = seen[id(a)] == seen[id(b)]
            eq = independent_equal(a, b)
            if same and not eq:
                res_obj.v(f"unequal-full-citations-share-resource:{kind(a)}", f"#{i} {a!r} and #{j} {b!r}")
            elif eq and not same:
                res_obj.v(f"equal-full-citations-split:{kind(a)}", f"#{i} {a!r} and #{j} {b!r}")


def _names(full):
    m = full.metadata
    return [getattr(m, "plaintiff", None), getattr(m, "defendant", None)]


def _contains(ag, full):
    return any(n and ag in n for n in _names(full))


def check_c07(res_obj, cits, out):
    """Safety direction of the statement: wherever the implementation attaches, the model must allow it."""
    from eyecite.models import (FullCaseCitation, FullCitation, IdCitation, ReferenceCitation, ShortCaseCitation,
                                SupraCitation)
    from eyecite.utils import strip_punct

    owner = {}
    first_of = {}
    for li, (key, lst) in enumerate(out.items()):
        for c in lst:
            owner.setdefault(id(c), li)
        if lst:
            first_of[li] = lst[0]
    amb = False
    for i, c in enumerate(cits):
        if isinstance(c, FullCitation):
            continue
        R = owner.get(id(c))
        before = [f for f in cits[:i] if isinstance(f, FullCitation) and id(f) in owner]
        if isinstance(c, ShortCaseCitation):
            cands = [f for f in before if isinstance(f, FullCaseCitation) and f.corrected_reporter() == c.corrected_reporter()
                     and f.groups.get("volume") == c.groups.get("volume")]
            rs = list(dict.fromkeys(owner[id(f)] for f in cands))
            if len(rs) >= 2:
                amb = True
            if R is None:
                continue
            if R not in rs:
                res_obj.v("short-attached-to-non-candidate", f"#{i} {c!r} attached to list of {first_of.get(R)!r}")
            elif len(rs) > 1:
                ag = c.metadata.antecedent_guess
                sel = []
                if ag:
                    ag = strip_punct(ag)
                    sel = list(dict.fromkeys(owner[id(f)] for f in cands if _contains(ag, f)))
                if sel != [R]:
                    res_obj.v("short-guessed-among-candidates", f"#{i} {c!r}: {len(rs)} candidates, antecedent selects {len(sel)}, attached to {first_of.get(R)!r}")
        elif isinstance(c, SupraCitation):
            ag = c.metadata.antecedent_guess
            sel = []
            if ag:
                ag2 = strip_punct(ag)
                sel = list(dict.fromkeys(owner[id(f)] for f in before if isinstance(f, FullCaseCitation) and _contains(ag2, f)))
            if len(sel) >= 2:
                amb = True
            if R is None:
                continue
            if sel != [R]:
                res_obj.v("supra-guessed" if len(sel) != 0 else "supra-attached-without-match", f"#{i} {c!r}: name matches {len(sel)} resources, attached to {first_of.get(R)!r}")
        elif isinstance(c, ReferenceCitation):
            vals = {getattr(c.metadata, k) for k in ReferenceCitation.name_fields if getattr(c.metadata, k, None)}
            sel = []
            for f in before:
                fv = {getattr(f.metadata, k, None) for k in ReferenceCitation.name_fields} - {None, ""}
                if vals & fv:
                    sel.append(owner[id(f)])
            sel = list(dict.fromkeys(sel))
            if len(sel) >= 2:
                amb = True
            if R is None:
                continue
            if sel != [R]:
                res_obj.v("reference-guessed" if sel else "reference-attached-without-match", f"#{i} {c!r}: name matches {len(sel)} resources, attached to {first_of.get(R)!r}")
        elif isinstance(c, IdCitation):
            if i > 0 and id(cits[i - 1]) not in owner:
                amb = True  # id. after an unresolved citation
            if R is None:
                continue
            if i == 0 or owner.get(id(cits[i - 1])) != R:
                pred = cits[i - 1] if i else None
                state = "unresolved" if i and id(cits[i - 1]) not in owner else "elsewhere"
                res_obj.v("id-not-following-predecessor", f"#{i} {c!r} attached to {first_of.get(R)!r} but predecessor {pred!r} is {state}")
                continue
            first = first_of[R]
            page = first.groups.get("page")
            if type(first) is FullCaseCitation and page is None:
                res_obj.v("id-attached-to-placeholder-page", f"#{i} {c!r} attached to {first!r}")
                continue
            pin = c.metadata.pin_cite
            if pin and isinstance(page, str) and page.isdigit() and page.isascii():
                m = re.match(r"(?:at )?(\d+)", pin)
                if not m:
                    res_obj.v("id-nonnumeric-pin-attached", f"#{i} {c!r} pin={pin!r} attached to {first!r}")
                else:
                    p = int(m[1])
                    if p < int(page) or p > int(page) + MAX_PAGES:
                        res_obj.v("id-implausible-pin-attached", f"#{i} {c!r} pin={pin!r} first page {page} attached to {first!r}")
        else:
            if R is not None:
                res_obj.v(f"other-kind-attached:{kind(c)}", f"#{i} {c!r}")
    return amb


def check_c08(res_obj, cits, out):
    """Prefix law: resolve(prefix) == restriction of resolve(whole)."""
    from eyecite.models import FullCitation

    whole = groups_as_indices(cits, out)
    for k in range(len(cits)):
        sub = resolve(cits[:k])
        if isinstance(sub, Raised):
            res_obj.label("raised")
            return
        got = groups_as_indices(cits[:k], sub)
        exp = [[i for i in lst if i < k] for lst in whole]
        exp = [lst for lst in exp if lst]
        if got != exp:
            res_obj.v("prefix-differs", f"prefix length {k}: resolve(prefix)={got} but restriction of resolve(whole)={exp} (whole={whole})")
            return
    for lst in whole:
        for i in lst[1:]:
            if not isinstance(cits[i], FullCitation) and i < lst[0]:
                res_obj.v("member-before-its-full-citation", f"{lst}")


# --------------------------------------------------------------------------------------
# Abstract model of the alphabet letters (what each snippet was WRITTEN to be), independent of anything eyecite
# computes from the objects (corrected_reporter, strip_punct, page flags ...). Used on alphabet sequences only.

CASE_OF = {"FA": "A", "FA2": "A", "FA0": "A", "FB": "B", "FC": "C", "FH": "H", "FO": "O"}  # full case letters -> case label
IDENTITY_FULL = {"FP", "JP"}  # placeholder pages: every occurrence is its own resource
OTHER_FULL = {"LAW": "LAW", "JRN": "JRN"}
NAMES = {"A": {"Alpha", "Beta"}, "B": {"Gamma", "Delta"}, "C": {"Alpha", "Omega"}, "P": {"Sigma", "Tau"}, "H": {"Eta", "Theta"}, "O": {"O'Brien", "D'Arcy"}}
NAMELESS = {"FA0"}  # cited without party names
RV = {"A": ("U.S.", "10"), "B": ("U.S.", "10"), "C": ("F.2d", "30"), "P": ("U.S.", "585"), "H": ("Hill", "10"), "O": ("F.3d", "40")}
PAGE = {"A": 100, "B": 200, "C": 300, "P": None, "H": 100, "O": 400, "LAW": "nopage", "JRN": 1, "JP": "placeholder-journal"}
SHORT = {"S_A": ("U.S.", "10", "Beta"), "S_amb": ("U.S.", "10", None), "S_C": ("F.2d", "30", None), "S_for": ("F.3d", "77", None),
         "S_Cr": ("Cranch", "10", None), "S_P": ("U.S.", "585", None), "S_far": ("F.2d", "30", None), "S_ser": ("F.3d", "30", None)}
SUPRA = {"SU_B": "Delta", "SU_amb": "Alpha", "SU_unk": "\u0417\u0435\u0442\u0430", "SU_O": "D'Arcy", "SU_vol": "Alpha"}
REFS = {"REF_B": "Gamma", "REF_O": "O'Brien"}
IDPIN = {"ID": None, "ID_ok": 101, "ID_far": 999, "ID_edge": 251, "ID_bad": "bad"}


def abstract_resolution(seq):
    """Expected grouping of an alphabet sequence, as lists of indices, from the written meaning of each letter."""
    fulls = []  # (resource key, case label or None, index)
    groups = {}
    order = []
    last = None
    for i, l in enumerate(seq):
        res = None
        if l in CASE_OF:
            res = CASE_OF[l]
            fulls.append((res, CASE_OF[l], i, l))
        elif l in IDENTITY_FULL:
            res = (l, i)
            fulls.append((res, "P" if l == "FP" else None, i, l))
        elif l in OTHER_FULL:
            res = OTHER_FULL[l]
            fulls.append((res, None, i, l))
        elif l in SHORT:
            rep, vol, ante = SHORT[l]
            cands = [(r, c, lt) for r, c, _, lt in fulls if c and RV[c] == (rep, vol)]
            rs = list(dict.fromkeys(r for r, c, lt in cands))
            if len(rs) == 1:
                res = rs[0]
            elif ante:
                m = list(dict.fromkeys(r for r, c, lt in cands if lt not in NAMELESS and ante in NAMES[c]))
                res = m[0] if len(m) == 1 else None
        elif l in SUPRA:
            m = list(dict.fromkeys(r for r, c, _, lt in fulls if c and lt not in NAMELESS and SUPRA[l] in NAMES[c]))
            res = m[0] if len(m) == 1 else None
        elif l in REFS:
            m = list(dict.fromkeys(r for r, c, _, lt in fulls if c and lt not in NAMELESS and REFS[l] in NAMES[c]))
            res = m[0] if len(m) == 1 else None
        elif l in IDPIN:
            if last is not None:
                first_letter = seq[groups[last][0]]
                ck = CASE_OF.get(first_letter) or ("P" if first_letter == "FP" else first_letter)
                page = PAGE[ck]
                pin = IDPIN[l]
                if page is None:
                    res = None
                elif pin is None or page in ("nopage", "placeholder-journal"):
                    res = last
                elif pin == "bad":
                    res = None
                elif page <= pin <= page + MAX_PAGES:
                    res = last
        last = res
        if res is not None:
            if res not in groups:
                groups[res] = []
                order.append(res)
            groups[res].append(i)
    return [groups[r] for r in order]


def check_abstract(res_obj, seq, cits, out, safety_only):
    """Compare the implementation's grouping of an alphabet sequence with the abstract model.
    safety_only: only attachments made by the implementation are judged (each must be the model's)."""
    got = groups_as_indices(cits, out)
    exp = abstract_resolution(seq)
    if got == exp:
        return
    owner_got = {i: tuple(g) for g in got for i in g}
    owner_exp = {i: tuple(g) for g in exp for i in g}
    for i, l in enumerate(seq):
        g, e = owner_got.get(i), owner_exp.get(i)
        if g == e:
            continue
        full = l in CASE_OF or l in IDENTITY_FULL or l in OTHER_FULL
        if full:
            res_obj.v("abstract:full-citations-grouped-differently", f"{seq}: implementation {got}, written meaning {exp}")
            return
        if g is not None:
            # attached where the written meaning says "unresolved" or "elsewhere"
            ge = [j for j in g if j < i]
            ee = [j for j in (e or ()) if j < i]
            if ge != ee:
                res_obj.v(f"abstract:attached-against-written-meaning:{l}", f"{seq}: #{i} {l} grouped as {list(g)}, written meaning {list(e) if e else None}")
                return
        elif not safety_only:
            res_obj.v(f"abstract:left-unresolved:{l}", f"{seq}: #{i} {l} unresolved, written meaning {list(e)}")
            return
