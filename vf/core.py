"""Shared machinery: collector, known findings, worker pool, shrinker, evidence writer.

A *case* is JSON-serialisable data.  A property module exposes

    ID, RULE, LEVEL_NOTE(optional)
    setup(tier)                       -- run once in the parent before workers are forked
    phases(tier) -> [Phase]           -- what to run
    evaluate(case) -> Res             -- pure function of a case: runs eyecite + the oracle

Violations are *recorded* (bucketed by root cause), never raised, so that a shallow defect does
not hide everything behind it.
"""
from __future__ import annotations

import hashlib
import json
import os
import re
import sys
import time
import traceback
from collections import Counter
from dataclasses import dataclass, field
from typing import Any, Callable, Dict, List, Optional

HOME = os.environ.get("VERIF_HOME", os.path.dirname(os.path.dirname(os.path.abspath(__file__))))
SRC = os.environ.get("VERIF_SRC", "/repo")
NWORKERS = int(os.environ.get("VERIF_WORKERS", "16"))


FROZEN_KEYS = {"bal", "line", "sep", "tok", "unit", "pre", "post", "clone", "dmp", "at", "j", "run", "kind", "tokenizer", "op", "steps", "mode", "regex", "full", "engine", "w", "t"}


class HarnessError(Exception):
    pass


# --------------------------------------------------------------------------------------
# results of one evaluation


@dataclass
class Res:
    violations: List[tuple] = field(default_factory=list)  # (bucket, detail)
    labels: List[str] = field(default_factory=list)
    nontrivial: bool = False
    key: Any = None  # identity of the case for distinct counting (default: the case itself)
    vcases: Dict[str, Any] = field(default_factory=dict)  # bucket -> narrower replay case

    def v(self, bucket: str, detail: Any = "", case: Any = None):
        self.violations.append((bucket, detail if isinstance(detail, str) else repr(detail)))
        if case is not None and bucket not in self.vcases:
            self.vcases[bucket] = case

    def label(self, *names):
        self.labels.extend(names)


class Raised:
    """Marker returned by call(): the code under test raised."""

    def __init__(self, exc: BaseException):
        self.exc = exc
        self.type = type(exc).__name__
        tb = traceback.extract_tb(exc.__traceback__)
        site = "?"
        for fr in reversed(tb):
            fn = fr.filename.replace("\\", "/")
            if "/eyecite/" in fn and "/vf/" not in fn:
                site = os.path.basename(fn) + ":" + fr.name
                break
        self.site = site
        self.msg = str(exc)[:200]

    def bucket(self):
        return f"raise:{self.type}@{self.site}"

    def __repr__(self):
        return f"Raised({self.type}@{self.site}: {self.msg})"


def call(fn, *a, **k):
    """Run code under test; exceptions become a Raised marker instead of propagating."""
    try:
        return fn(*a, **k)
    except (KeyboardInterrupt, SystemExit, MemoryError):
        raise
    except BaseException as e:  # noqa: BLE001 - the point is to observe it
        return Raised(e)


# --------------------------------------------------------------------------------------
# known findings


class Known:
    def __init__(self, path=None):
        self.open: List[dict] = []
        self.fixed: List[str] = []
        path = path or os.path.join(HOME, "KNOWN_FINDINGS.txt")
        if not os.path.exists(path):
            return
        for line in open(path, encoding="utf8"):
            line = line.strip()
            if not line or line.startswith("#"):
                continue
            if line.startswith("fixed:"):
                self.fixed.append(line)
                continue
            if line.startswith("finding:"):
                m = re.match(r"finding:\s+property=(\S+)\s+id=(\S+)\s+match=(\{.*?\})\s+::\s+(.*)$", line)
                if not m:
                    raise HarnessError(f"unparsable known-finding line: {line}")
                self.open.append(
                    {"property": m[1], "id": m[2], "match": json.loads(m[3]), "what": m[4]}
                )

    def match(self, prop_id: str, bucket: str, case: Any, detail: str) -> Optional[dict]:
        for f in self.open:
            if f["property"] != prop_id:
                continue
            m = f["match"]
            ok = True
            if "bucket_re" in m and not re.fullmatch(m["bucket_re"], bucket):
                ok = False
            text = case.get("text") if isinstance(case, dict) else None
            if "text_equals" in m and text != m["text_equals"]:
                ok = False
            if "text_re" in m and not (isinstance(text, str) and re.search(m["text_re"], text)):
                ok = False
            if "case_re" in m and not re.search(m["case_re"], json.dumps(case, ensure_ascii=False, sort_keys=True)):
                ok = False
            if "detail_re" in m and not re.search(m["detail_re"], detail):
                ok = False
            if ok:
                return f
        return None


# --------------------------------------------------------------------------------------
# collector


def case_hash(obj) -> int:
    s = json.dumps(obj, sort_keys=True, ensure_ascii=False, default=repr)
    return int.from_bytes(hashlib.blake2b(s.encode("utf8", "surrogatepass"), digest_size=8).digest(), "big")


def case_size(case) -> int:
    return len(json.dumps(case, ensure_ascii=False, default=repr))


class Collector:
    def __init__(self, prop_id: str, known: Known):
        self.prop_id = prop_id
        self.known = known
        self.evals = 0
        self.nontrivial: set = set()
        self.nt_counted = 0  # non-trivial cases of phases whose cases are distinct by construction (enumerations)
        self.count_only: set = set()
        self.labels: Counter = Counter()
        self.phase_evals: Counter = Counter()
        self.buckets: Dict[tuple, dict] = {}
        self.samples: List[Any] = []
        self.nt_samples: List[Any] = []
        self.big_sample = None
        self.extra: Dict[str, Any] = {}

    def add(self, phase: str, case: Any, res: Res):
        self.evals += 1
        self.phase_evals[phase] += 1
        for lab in res.labels:
            self.labels[lab] += 1
        if res.nontrivial:
            if phase in self.count_only:
                self.nt_counted += 1
                if len(self.nt_samples) < 4:
                    self.nt_samples.append(case)
            else:
                h = case_hash(res.key if res.key is not None else case)
                if h not in self.nontrivial:
                    self.nontrivial.add(h)
                    if len(self.nt_samples) < 4:
                        self.nt_samples.append(case)
        if len(self.samples) < 3:
            self.samples.append(case)
        main_case = case
        for bucket, detail in res.violations:
            case = res.vcases.get(bucket, main_case)
            kf = self.known.match(self.prop_id, bucket, case, detail)
            key = (bucket, kf["id"] if kf else None)
            cur = self.buckets.get(key)
            if cur is None:
                self.buckets[key] = {"case": case, "detail": detail, "count": 1, "phase": phase, "size": case_size(case)}
            else:
                cur["count"] += 1
                sz = case_size(case)
                if sz < cur["size"]:
                    cur.update(case=case, detail=detail, phase=phase, size=sz)

    def merge(self, other: "Collector"):
        self.evals += other.evals
        self.phase_evals.update(other.phase_evals)
        self.labels.update(other.labels)
        self.nontrivial |= other.nontrivial
        self.nt_counted += other.nt_counted
        for s in other.samples:
            if len(self.samples) < 3:
                self.samples.append(s)
        for s in other.nt_samples:
            if len(self.nt_samples) < 6:
                self.nt_samples.append(s)
        for key, b in other.buckets.items():
            cur = self.buckets.get(key)
            if cur is None:
                self.buckets[key] = dict(b)
            else:
                cnt = cur["count"] + b["count"]
                if b["size"] < cur["size"]:
                    cur.update(b)
                cur["count"] = cnt
        for k, v in other.extra.items():
            if isinstance(v, (int, float)) and isinstance(self.extra.get(k), (int, float)):
                self.extra[k] += v
            else:
                self.extra.setdefault(k, v)


# --------------------------------------------------------------------------------------
# phases


@dataclass
class Phase:
    name: str
    kind: str  # "gen" | "enum" | "custom"
    strategy: Optional[Callable[[], Any]] = None  # gen: () -> hypothesis strategy
    n: int = 0  # gen: total number of cases
    items: Optional[Callable[[], list]] = None  # enum: () -> list of cases (computed in parent)
    fn: Optional[Callable[[Collector, int], None]] = None  # custom: runs in the parent
    exhaustive: bool = False
    evaluate: Optional[Callable[[Any], Res]] = None  # override prop.evaluate
    chunk: int = 0  # enum: items per task (0 = auto)
    distinct: bool = False  # enum: the enumerated cases are pairwise distinct by construction (count, do not hash)
    shards: int = 0  # gen: number of shards (0 = NWORKERS)


_W: Dict[str, Any] = {}  # worker globals (inherited through fork)


def _gen_task(args):
    pidx, shard, n, seed = args
    prop, phases, known = _W["prop"], _W["phases"], _W["known"]
    ph = phases[pidx]
    ev = ph.evaluate or prop.evaluate
    col = Collector(prop.ID, known)
    import hypothesis
    from hypothesis import HealthCheck, Phase as HP, given, settings

    strat = ph.strategy()

    @hypothesis.seed(seed)
    @settings(
        max_examples=n,
        database=None,
        deadline=None,
        derandomize=False,
        report_multiple_bugs=False,
        suppress_health_check=[HealthCheck.too_slow, HealthCheck.data_too_large, HealthCheck.large_base_example],
        phases=[HP.generate],
    )
    @given(strat)
    def t(case):
        col.add(ph.name, case, ev(case))

    try:
        t()
    except hypothesis.errors.FailedHealthCheck as e:
        return ("harness", f"{ph.name}: generator health check failed: {e}")
    except Exception as e:  # harness bug inside evaluate or generator
        return ("harness", f"{ph.name}: {type(e).__name__}: {e}\n{traceback.format_exc()}")
    return ("ok", col)


def _enum_task(args):
    pidx, lo, hi = args
    prop, phases, known = _W["prop"], _W["phases"], _W["known"]
    ph = phases[pidx]
    ev = ph.evaluate or prop.evaluate
    col = Collector(prop.ID, known)
    if ph.distinct:
        col.count_only.add(ph.name)
    items = _W["items"][pidx]
    try:
        for i in range(lo, hi):
            case = items[i]
            col.add(ph.name, case, ev(case))
    except Exception as e:
        return ("harness", f"{ph.name}: {type(e).__name__}: {e}\n{traceback.format_exc()}")
    return ("ok", col)


def _shrink_task(args):
    key, case = args
    prop = _W["prop"]
    known = _W["known"]
    ev_for = _W["ev_for"]
    bucket, kfid = key

    def fails(c):
        try:
            r = ev_for(c)
        except Exception:
            return False
        for b, d in r.violations:
            if b == bucket:
                kf = known.match(prop.ID, b, c, d)
                if (kf["id"] if kf else None) == kfid:
                    return True
        return False

    shr = getattr(prop, "shrink", None)
    try:
        small = (shr or shrink_case)(case, fails)
    except Exception:
        small = case
    return key, small


# --------------------------------------------------------------------------------------
# generic shrinker (bounded by evaluations, never by time)


def ddmin_seq(seq, rebuild, fails, budget):
    """Delete chunks of a sequence while `fails(rebuild(seq))` stays true."""
    seq = list(seq)
    n = 2
    while len(seq) >= 1 and budget[0] > 0:
        chunk = max(1, len(seq) // n)
        reduced = False
        i = 0
        while i < len(seq) and budget[0] > 0:
            cand = seq[:i] + seq[i + chunk :]
            budget[0] -= 1
            if fails(rebuild(cand)):
                seq = cand
                reduced = True
            else:
                i += chunk
        if not reduced:
            if chunk == 1:
                break
            n = min(len(seq), n * 2) if len(seq) else 1
        else:
            n = max(2, n - 1)
    return seq


def shrink_case(case, fails, budget_n=1500):
    """Generic structural shrinker for JSON-like cases."""
    budget = [budget_n]

    def rec(get, put, val):
        # val is the current sub-value; put(newval) -> whole case
        if isinstance(val, str) and val:
            out = ddmin_seq(val, lambda s: put("".join(s)), fails, budget)
            val = "".join(out)
            # simplify characters
            chars = list(val)
            for i, ch in enumerate(chars):
                if budget[0] <= 0:
                    break
                if ord(ch) > 127 or ch.isupper() and False:
                    for rep in ("a", " "):
                        cand = chars[:i] + [rep] + chars[i + 1 :]
                        budget[0] -= 1
                        if fails(put("".join(cand))):
                            chars = cand
                            break
            return "".join(chars)
        if isinstance(val, list) and val:
            out = ddmin_seq(val, lambda s: put(list(s)), fails, budget)
            val = list(out)
            for i in range(len(val)):
                if budget[0] <= 0:
                    break

                def put_i(nv, i=i, val=val):
                    c = list(val)
                    c[i] = nv
                    return put(c)

                val[i] = rec(None, put_i, val[i])
            return val
        if isinstance(val, dict):
            val = dict(val)
            for k in list(val.keys()):
                if budget[0] <= 0:
                    break
                if k in FROZEN_KEYS:
                    continue

                def put_k(nv, k=k, val=val):
                    c = dict(val)
                    c[k] = nv
                    return put(c)

                val[k] = rec(None, put_k, val[k])
            return val
        if isinstance(val, bool):
            return val
        if isinstance(val, int) and val != 0:
            for cand in (0, val // 2, val - 1):
                budget[0] -= 1
                if cand != val and fails(put(cand)):
                    return rec(None, put, cand) if cand != 0 else 0
            return val
        return val

    if not fails(case):
        return case
    return rec(None, lambda v: v, case)


# --------------------------------------------------------------------------------------
# running a property


def load_replays(prop_id: str):
    d = os.path.join(HOME, "replays", prop_id)
    out = []
    if os.path.isdir(d):
        for fn in sorted(os.listdir(d)):
            if fn.endswith(".json"):
                with open(os.path.join(d, fn), encoding="utf8") as f:
                    obj = json.load(f)
                out.append((fn, obj))
    return out


def run_property(prop, tier: str, seed: int) -> int:
    import multiprocessing as mp

    t0 = time.time()
    known = Known()
    # wall-clock budget of the pooled phases: none for quick; thorough defaults to 50 minutes (sizes are chosen so that it
    # is normally not reached; if it is, the run is reported as partly inconclusive, never as a violation)
    budget_s = float(os.environ.get("VERIF_BUDGET_S", "") or (3000 if tier == "thorough" else 0))
    prop.setup(tier)
    phases: List[Phase] = prop.phases(tier)
    total = Collector(prop.ID, known)
    harness_errors: List[str] = []

    # replay tier: committed regression inputs
    replays = load_replays(prop.ID)
    for fn, obj in replays:
        ev = prop.evaluate
        try:
            total.add("replay", obj["case"], ev(obj["case"]))
        except Exception as e:
            harness_errors.append(f"replay {fn}: {type(e).__name__}: {e}\n{traceback.format_exc()}")

    _W.update(prop=prop, phases=phases, known=known, items={}, ev_for=prop.evaluate)
    tasks = []
    exhaustive_info = {}
    for pidx, ph in enumerate(phases):
        if ph.kind == "enum":
            items = ph.items()
            _W["items"][pidx] = items
            exhaustive_info[ph.name] = {"enumerated": len(items), "exhaustive": ph.exhaustive}
            chunk = ph.chunk or max(1, min(2000, (len(items) + NWORKERS * 4 - 1) // (NWORKERS * 4)))
            for lo in range(0, len(items), chunk):
                tasks.append(("enum", (pidx, lo, min(len(items), lo + chunk))))
        elif ph.kind == "gen":
            # at most ~4,000 cases per task, so that a budget-limited run still collects what was finished
            shards = ph.shards or max(NWORKERS, (ph.n + 3999) // 4000)
            shards = max(1, min(shards, ph.n))
            per = ph.n // shards
            for s in range(shards):
                n = per + (1 if s < ph.n - per * shards else 0)
                if n > 0:
                    tasks.append(("gen", (pidx, s, n, seed * 100003 + pidx * 1009 + s)))
    budget_exhausted = False
    if tasks:
        ctx = mp.get_context("fork")
        with ctx.Pool(min(NWORKERS, len(tasks))) as pool:
            asyncs = []
            for kind, args in tasks:
                asyncs.append(pool.apply_async(_gen_task if kind == "gen" else _enum_task, (args,)))
            for a in asyncs:
                while True:
                    try:
                        status, payload = a.get(timeout=5)
                        break
                    except mp.TimeoutError:
                        if budget_s and time.time() - t0 > budget_s:
                            budget_exhausted = True
                            break
                if budget_exhausted:
                    pool.terminate()
                    break
                if status == "ok":
                    total.merge(payload)
                else:
                    harness_errors.append(payload)
    # custom phases run in the parent (they manage their own processes)
    total.extra["pool_wall_s"] = round(time.time() - t0, 1)
    for pidx, ph in enumerate(phases):
        if ph.kind == "custom":
            tc = time.time()
            try:
                ph.fn(total, seed)
                total.extra[f"{ph.name}_wall_s"] = round(time.time() - tc, 1)
            except HarnessError as e:
                harness_errors.append(f"{ph.name}: {e}")
            except Exception as e:
                harness_errors.append(f"{ph.name}: {type(e).__name__}: {e}\n{traceback.format_exc()}")

    # shrink and report
    new_keys = [k for k in total.buckets if k[1] is None]
    known_keys = [k for k in total.buckets if k[1] is not None]
    outdir = os.path.join(os.environ.get("VERIF_OUT_DIR") or os.path.join(HOME, "out"), prop.ID)
    if os.path.isdir(outdir):  # replay files of earlier runs are stale
        for fn in os.listdir(outdir):
            if fn.endswith(".json"):
                os.unlink(os.path.join(outdir, fn))
    violations = []
    if new_keys:
        os.makedirs(outdir, exist_ok=True)
        to_shrink = sorted(new_keys, key=lambda k: -total.buckets[k]["count"])[:5]
        shrunk = {}
        no_shrink = os.environ.get("VERIF_NO_SHRINK") == "1"
        if not no_shrink and not getattr(prop, "NO_SHRINK", False):
            try:
                ctx = mp.get_context("fork")
                with ctx.Pool(min(NWORKERS, len(to_shrink))) as pool:
                    for key, small in pool.map(_shrink_task, [(k, total.buckets[k]["case"]) for k in to_shrink]):
                        shrunk[key] = small
            except Exception as e:  # shrinking is best effort
                print(f"note: shrinking failed: {e}", file=sys.stderr)
        for key in sorted(new_keys):
            b = total.buckets[key]
            case = shrunk.get(key, b["case"])
            detail = b["detail"]
            if key in shrunk and shrunk[key] != b["case"]:
                try:
                    r = prop.evaluate(case)
                    for bb, dd in r.violations:
                        if bb == key[0]:
                            detail = dd
                            break
                except Exception:
                    case = b["case"]
            hid = hashlib.sha1((prop.ID + key[0]).encode()).hexdigest()[:10]
            path = os.path.join(outdir, f"{hid}.json")
            with open(path, "w", encoding="utf8") as f:
                json.dump(
                    {"property": prop.ID, "bucket": key[0], "detail": detail, "count": b["count"], "phase": b["phase"], "case": case, "unshrunk_case": b["case"]},
                    f, ensure_ascii=False, indent=1, default=repr,
                )
            violations.append((key[0], path, detail, b["count"]))
    for key in sorted(known_keys):
        f = next(x for x in known.open if x["id"] == key[1] and x["property"] == prop.ID)
        print(f"KNOWN-FINDING: property={prop.ID} {f['what']} [id={f['id']} bucket={key[0]} seen={total.buckets[key]['count']}]")
    for bucket, path, detail, count in violations:
        print(f"VIOLATION property={prop.ID} replay={path}")
        print(f"  bucket={bucket} count={count} detail={detail[:400]}")

    # evidence
    wall = time.time() - t0
    samples = []
    for s in total.samples[:3] + total.nt_samples[:5]:
        if s not in samples:
            samples.append(s)
    samples = [_trim(s) for s in samples[:8]]
    cov = {
        "evaluations": total.evals,
        "distinct_nontrivial": len(total.nontrivial) + total.nt_counted,
        "rule": prop.RULE,
        "samples": samples,
        "labels": {k: v for k, v in sorted(total.labels.items())},
        "per_phase_evaluations": dict(total.phase_evals),
        "phases": exhaustive_info,
        "exhaustive": bool(exhaustive_info) and all(v["exhaustive"] for v in exhaustive_info.values()) and not any(p.kind == "gen" for p in phases),
        "buckets_seen": {f"{k[0]}|{k[1]}": v["count"] for k, v in total.buckets.items()},
        "known_findings_reproduced": sorted({k[1] for k in known_keys}),
        "committed_replays": len(replays),
        "budget_exhausted": budget_exhausted,
        "workers": NWORKERS,
        "source_root": SRC,
    }
    cov.update(total.extra)
    ev = {
        "property_id": prop.ID,
        "tier": tier,
        "seed": seed,
        "level": getattr(prop, "LEVEL", "exploration"),
        "coverage": cov,
        "assumptions": list(getattr(prop, "ASSUMPTIONS", [])),
        "wall_s": round(wall, 2),
        "violations": len(violations),
    }
    evdir = os.environ.get("VERIF_EVIDENCE_DIR") or os.path.join(HOME, "evidence")
    os.makedirs(evdir, exist_ok=True)
    with open(os.path.join(evdir, f"{prop.ID}.json"), "w", encoding="utf8") as f:
        json.dump(ev, f, ensure_ascii=False, indent=1, default=repr)
    print(
        f"{prop.ID} tier={tier} seed={seed}: evaluations={total.evals} distinct_nontrivial={len(total.nontrivial) + total.nt_counted} "
        f"new_buckets={len(new_keys)} known={len(known_keys)} wall={wall:.1f}s"
    )
    if harness_errors:
        for h in harness_errors[:5]:
            print("HARNESS-ERROR:", h, file=sys.stderr)
        return 2
    if total.evals == 0:
        print("HARNESS-ERROR: nothing evaluated", file=sys.stderr)
        return 2
    return 1 if violations else 0


def _trim(obj, limit=600):
    s = json.dumps(obj, ensure_ascii=False, default=repr)
    if len(s) <= limit:
        return obj
    return {"truncated": s[:limit] + "..."}


def run_replay(prop, path: str) -> int:
    known = Known()
    prop.setup("quick")
    with open(path, encoding="utf8") as f:
        obj = json.load(f)
    case = obj["case"]
    res = prop.evaluate(case)
    bad = 0
    for bucket, detail in res.violations:
        kf = known.match(prop.ID, bucket, case, detail)
        if kf:
            print(f"KNOWN-FINDING: property={prop.ID} {kf['what']} [id={kf['id']} bucket={bucket}]")
        else:
            bad += 1
            print(f"VIOLATION property={prop.ID} replay={os.path.abspath(path)}")
            print(f"  bucket={bucket} detail={detail[:400]}")
    if not bad:
        print(f"{prop.ID} replay {path}: no violation")
    return 1 if bad else 0
