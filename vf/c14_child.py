"""Child of the C14 cache-fault phase. Applies cache faults in a scratch directory and reports, per fault,
whether HyperscanTokenizer(cache_dir=...) raised and whether its tokens equal those of cache_dir=None.
A native crash kills this process; the parent observes the exit status."""
import json
import logging
import os
import random
import shutil
import sys

TEXTS = [
    "Foo v. Bar, 1 U.S. 1, 5 (1999). Id. at 6. Bar, supra, at 7. See 2 F.2d 3; 42 U.S.C. § 1983.\n“1 U.S. 1”",
    "x 12 F.3d at 99 (quoting 3 S. Ct. 4) ibid. § 5",
    "SEE 1 U.S. 1. ID. at 5; See also Ibid. and bar, SUPRA, at 6. 2 f.2d 3",
]


def tokkey(t):
    return [type(t).__name__, t.start, t.end, str(t), sorted((k, str(v)) for k, v in t.groups.items()),
            [e.short_name for e in getattr(t, "exact_editions", ())], [e.short_name for e in getattr(t, "variation_editions", ())], getattr(t, "short", None)]


def extractors_for(db):
    from eyecite.tokenizers import EXTRACTORS

    if db == "full":
        return list(EXTRACTORS)
    wanted = ["U.S.", "F.2d", "F.3d", "S. Ct."]
    subset = [e for e in EXTRACTORS[:-5] if any(s in wanted for s in e.strings) and len(e.strings) <= 3][:6]
    return subset + list(EXTRACTORS[-5:])


def apply_fault(good: bytes, f: dict):
    kind = f["fault"]
    if kind == "truncate":
        return good[: f["n"]]
    if kind == "empty":
        return b""
    if kind == "bitflip":
        b = bytearray(good)
        b[f["byte"] % len(b)] ^= 1 << (f["bit"] % 8)
        return bytes(b)
    if kind == "byte":
        b = bytearray(good)
        b[f["byte"] % len(b)] = f["value"] % 256
        return bytes(b)
    if kind == "garbage":
        r = random.Random(f["seed"])
        return bytes(r.randrange(256) for _ in range(f["len"]))
    if kind == "garbage-tail":
        r = random.Random(f["seed"])
        keep = f["keep"] % (len(good) + 1)
        return good[:keep] + bytes(r.randrange(256) for _ in range(len(good) - keep))
    if kind == "append":
        r = random.Random(f.get("seed", 0))
        return good + bytes(r.randrange(256) for _ in range(f["n"]))
    if kind == "zero-fill":
        b = bytearray(good)
        a, z = f["from"] % len(b), f["to"] % (len(b) + 1)
        for i in range(min(a, z), max(a, z)):
            b[i] = 0
        return bytes(b)
    if kind == "header-field":
        b = bytearray(good)
        off = f["offset"]
        val = (f["value"] % (1 << 32)).to_bytes(4, "little")
        b[off: off + 4] = val
        return bytes(b)
    if kind in ("absent-dir", "none", "dir-instead-of-file", "other-flags"):
        return None
    raise ValueError(kind)


def main():
    logging.disable(logging.CRITICAL)
    job_path, out_path = sys.argv[1:3]
    job = json.load(open(job_path))
    from eyecite.tokenizers import HyperscanTokenizer

    exs = extractors_for(job["db"])
    work = job["workdir"]
    base = HyperscanTokenizer(extractors=list(exs))
    expected = [[tokkey(t) for t in base.extract_tokens(x)] for x in TEXTS]
    # a good cache file
    gooddir = os.path.join(work, "good")
    os.makedirs(gooddir, exist_ok=True)
    t0 = HyperscanTokenizer(extractors=list(exs), cache_dir=gooddir)
    t0.hyperscan_db
    names = os.listdir(gooddir)
    assert len(names) == 1, names
    fingerprint = names[0]
    good = open(os.path.join(gooddir, fingerprint), "rb").read()
    results = []
    with open(out_path, "w") as out:
        out.write(json.dumps({"good_len": len(good)}) + "\n")
        out.flush()
        for i, f in enumerate(job["faults"]):
            d = os.path.join(work, f"f{i}")
            shutil.rmtree(d, ignore_errors=True)
            rec = {"i": i}
            try:
                data = apply_fault(good, f)
                if f["fault"] == "absent-dir":
                    pass  # directory does not exist: the tokenizer must create it
                else:
                    os.makedirs(d, exist_ok=True)
                    if f["fault"] == "dir-instead-of-file":
                        pass
                    elif f["fault"] == "other-flags":
                        # the directory is shared with a tokenizer built from the same expressions under other flags
                        # (another application, an older release): it wrote its own database there first
                        import dataclasses
                        import re

                        if f.get("mode", 0) == 0:
                            alt = [dataclasses.replace(e, flags=e.flags & ~re.I) if e.flags & re.I else e for e in exs]
                        else:
                            alt = [dataclasses.replace(e, flags=e.flags | re.I) for e in exs]
                        HyperscanTokenizer(extractors=alt, cache_dir=d).hyperscan_db
                    elif data is not None:
                        open(os.path.join(d, fingerprint), "wb").write(data)
                out.write(json.dumps({"i": i, "begin": True}) + "\n")
                out.flush()
                try:
                    t = HyperscanTokenizer(extractors=list(exs), cache_dir=d)
                    got = [[tokkey(x) for x in t.extract_tokens(x_)] for x_ in TEXTS]
                    rec["raised"] = None
                    rec["same"] = got == expected
                    if not rec["same"]:
                        rec["detail"] = f"{len(sum(got, []))} tokens vs {len(sum(expected, []))} expected"
                    # second construction: the (possibly rewritten) cache must work as well
                    t2 = HyperscanTokenizer(extractors=list(exs), cache_dir=d)
                    got2 = [[tokkey(x) for x in t2.extract_tokens(x_)] for x_ in TEXTS]
                    rec["same_second"] = got2 == expected
                except BaseException as e:  # noqa: BLE001
                    import traceback

                    tb = traceback.extract_tb(e.__traceback__)
                    site = next((os.path.basename(fr.filename) + ":" + fr.name for fr in reversed(tb) if "/eyecite/" in fr.filename.replace("\\", "/")), "?")
                    rec["raised"] = f"{type(e).__name__}@{site}"
                    rec["detail"] = str(e)[:200]
            finally:
                shutil.rmtree(d, ignore_errors=True)
            out.write(json.dumps(rec) + "\n")
            out.flush()


if __name__ == "__main__":
    main()
