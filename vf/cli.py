"""bin/check entry point: one property per call."""
import argparse
import importlib
import logging
import os
import sys


def main(argv=None):
    ap = argparse.ArgumentParser()
    ap.add_argument("prop")
    ap.add_argument("--tier", default=os.environ.get("VERIF_TIER", "quick"), choices=["quick", "thorough"])
    ap.add_argument("--replay")
    args = ap.parse_args(argv)
    seed = int(os.environ.get("VERIF_SEED", "1") or 1)
    logging.disable(logging.CRITICAL)  # eyecite logs warnings for skipped annotations etc.
    try:
        from vf import core

        src = os.path.realpath(core.SRC)
        import eyecite

        where = os.path.realpath(eyecite.__file__)
        if not where.startswith(src + os.sep):
            print(f"HARNESS-ERROR: eyecite imported from {where}, expected under {src}", file=sys.stderr)
            return 2
        mod = importlib.import_module(f"vf.props.{args.prop.lower()}")
        if args.replay:
            return core.run_replay(mod, args.replay)
        return core.run_property(mod, args.tier, seed)
    except SystemExit:
        raise
    except BaseException as e:  # noqa: BLE001
        import traceback

        traceback.print_exc()
        print(f"HARNESS-ERROR: {type(e).__name__}: {e}", file=sys.stderr)
        return 2


if __name__ == "__main__":
    sys.exit(main())
