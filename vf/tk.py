"""The three shipped tokenizers, built once in the parent before workers are forked."""
import os
import shutil

_T = {}


def get(names=("ref", "ac", "hs")):
    from eyecite.tokenizers import AhocorasickTokenizer, HyperscanTokenizer, Tokenizer, default_tokenizer

    for n in names:
        if n in _T:
            continue
        if n == "ref":
            t = Tokenizer()
            t.tokenize("warm up 1 U.S. 1")  # compiles all patterns once, before forking
        elif n == "ac":
            t = default_tokenizer
            t.tokenize("warm up 1 U.S. 1")
        elif n == "hs":
            t = HyperscanTokenizer()  # no cache: always compiled from the current tree's patterns
            t.tokenize("warm up 1 U.S. 1")
        else:
            raise KeyError(n)
        _T[n] = t
    return {n: _T[n] for n in names}
