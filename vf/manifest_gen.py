"""Regenerates MANIFEST.json from the CHECKS table (run: python -m vf.manifest_gen)."""
import json
import os

HOME = os.path.dirname(os.path.dirname(os.path.abspath(__file__)))

CHECKS = {}
NOT_APPLICABLE = {}


def check(pid, technique, text, note, design_ref):
    CHECKS[pid] = dict(technique=technique, text=text, note=note, design_ref=design_ref)


check(
    "C12",
    "property-based testing: Hypothesis grammar-generated documents, partition/round-trip oracle over the token stream",
    "Generated-input search (exploration). Every generated document is tokenized by each of the three shipped "
    "tokenizers and the partition invariants are checked directly (concatenation == text, offsets index their own "
    "text, increasing non-overlapping order, index list == positions of special tokens). No absence claim.",
    "Trusts Python str slicing/concatenation. Domain excludes lone surrogates. Hyperscan built without cache.",
    "DESIGN.md section 3 / C12",
)


def build():
    all_ids = [f"C{i:02d}" for i in range(1, 21)]
    checks = []
    for pid in all_ids:
        if pid not in CHECKS:
            continue
        c = CHECKS[pid]
        checks.append(
            {
                "property_id": pid,
                "quick_cmd": f"bin/check {pid} --tier quick",
                "thorough_cmd": f"bin/check {pid} --tier thorough",
                "evidence_file": f"evidence/{pid}.json",
                "replay_cmd_template": f"bin/check {pid} --replay {{path}}",
                "engine": "vf",
                "level_claimed": {"category": "exploration", "text": c["text"], "design_ref": c["design_ref"]},
                "level_note": c["note"],
                "technique": c["technique"],
            }
        )
    na = [
        {"property_id": pid, "reason": NOT_APPLICABLE.get(pid, "check not built yet in this round (planned in DESIGN.md section 3); not claimed until it exists")}
        for pid in all_ids
        if pid not in CHECKS
    ]
    man = {
        "version": 1,
        "setup_cmd": "bin/setup",
        "hooks": {
            "guard": "EYECITE_VERIF",
            "enable": "no hooks exist: checks import eyecite from /repo's working tree (PYTHONPATH=/repo) and observe public API only; bin/check exports EYECITE_VERIF=1 for form",
            "baseline_off_cmd": "cd /repo && /venv/bin/python -m pytest -ra -q -p no:cacheprovider --timeout=900 --continue-on-collection-errors",
            "source_commits": [],
            "add_only": True,
        },
        "engines": [
            {
                "name": "vf",
                "path": "vf/",
                "serves_properties": [c["property_id"] for c in checks],
                "kind_free_text": "Hypothesis-driven generated-input search with explicit oracles, root-cause bucketing, "
                "ddmin shrinking to library-free replay files; 16 forked workers",
            }
        ],
        "checks": checks,
        "not_applicable": na,
        "notes": "Exit 0 = held on everything explored (KNOWN-FINDING lines for listed open findings); exit 1 = VIOLATION lines; "
        "exit 2 = harness error. VERIF_SEED and VERIF_TIER honoured. See DESIGN.md.",
    }
    with open(os.path.join(HOME, "MANIFEST.json"), "w") as f:
        json.dump(man, f, indent=1)
    return man


if __name__ == "__main__":
    m = build()
    print("checks:", [c["property_id"] for c in m["checks"]])
