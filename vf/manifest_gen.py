"""Regenerates MANIFEST.json from the CHECKS table (run: python -m vf.manifest_gen)."""
import json
import os

HOME = os.path.dirname(os.path.dirname(os.path.abspath(__file__)))

CHECKS = {}
NOT_APPLICABLE = {}


def check(pid, technique, text, note, design_ref):
    CHECKS[pid] = dict(technique=technique, text=text, note=note, design_ref=design_ref)


check(
    "C12",
    "property-based testing: Hypothesis grammar-generated documents plus an enumerated family of long documents (every kind of line break, up to 70K / 300K characters), partition/round-trip oracle over the token stream",
    "Generated-input search (exploration). Every generated document is tokenized by each of the three shipped "
    "tokenizers and the partition invariants are checked directly (concatenation == text, offsets index their own "
    "text, increasing non-overlapping order, index list == positions of special tokens). No absence claim.",
    "Trusts Python str slicing/concatenation. Domain excludes lone surrogates. Hyperscan built without cache.",
    "DESIGN.md section 3 / C12",
)


check(
    "C02",
    "property-based testing: Hypothesis grammar + hostile mutation documents, validity predicate on every returned offset (plain and markup mode, three tokenizers)",
    "Generated-input search (exploration): every citation returned for every generated document is checked against "
    "the offset-ordering, slice-prefix and pin-cite-containment predicate of the statement, in plain mode for the three "
    "tokenizers and in markup mode against the cleaned text.",
    "Trusts eyecite.clean_text for the markup-mode reference text (C20 checks it). Lone surrogates excluded.",
    "DESIGN.md section 3 / C02",
)
check(
    "C03",
    "property-based testing: generated documents + data-encoded merge histories (model-based), order/disjointness/identity/idempotence invariants after every step",
    "Generated-input search (exploration) over documents and over merge histories (add reference citations for any "
    "full citation and resolved name, re-filter), with the statement's guarantees asserted after every step.",
    "Histories are Hypothesis-drawn operation lists interpreted against the live result (indices modulo what exists).",
    "DESIGN.md section 3 / C03",
)
check(
    "C04",
    "fuzzing / property-based testing: hostile-string generation plus enumerated long and degenerate inputs, crash oracle with exception bucketing by (type, innermost eyecite frame); every text is extracted twice with one tokenizer object",
    "Generated-input search (exploration): get_citations -> resolve_citations -> annotate_citations in all three "
    "tag modes, for three tokenizers x remove_ambiguous; any escaping exception is a violation, bucketed by raise site.",
    "Lone surrogates and documented 'raises ValueError on an unknown option' contracts are outside the domain.",
    "DESIGN.md section 3 / C04",
)
check(
    "C13",
    "property-based testing: regex-directed string generation per extractor (language-inclusion search) + differential testing of filtered vs reference tokenizer on generated documents and extractor sub-lists, on every string derived from one extractor per template shape, and on long texts with a token across power-of-two offsets",
    "Generated-input search (exploration): per-extractor members of the pattern language must be selected by the "
    "filter; token streams of AhocorasickTokenizer(L) and Tokenizer(L) are compared token by token for generated "
    "documents and generated extractor lists.",
    "Inclusion is searched, not proved. The harness builds its own Aho-Corasick index only to choose relevant sub-lists.",
    "DESIGN.md section 3 / C13",
)
check(
    "C17",
    "property-based testing: generated citation-dense documents, substring-in-extent oracle + metamorphic append-after-paragraph relation",
    "Generated-input search (exploration): every textual metadata value must be a substring of the citation's own "
    "(or its parallel group's) extent; appending an unrelated paragraph must not change existing citations.",
    "The append relation is asserted only across a paragraph break (see DESIGN 4.2/4.3).",
    "DESIGN.md section 3 / C17",
)
check(
    "C18",
    "property-based testing: exhaustive enumeration of ambiguous reporter strings x boundary years x year positions + generated documents; reference re-implementation of edition/year rules from reporters-db",
    "Enumeration of the finite sub-domain (all multi-edition plain reporter strings x boundary years x 7 forms) plus "
    "generated-input search; year range, guess soundness and the remove_ambiguous filter law are checked against an "
    "independent re-implementation.",
    "Edition dates are read from eyecite's Edition objects (copied from reporters-db); 'today' from the system clock.",
    "DESIGN.md section 3 / C18",
)

check(
    "C05",
    "model-based property testing: scenario model renders documents and knows every reference's intended antecedent; exhaustive small scenarios + Hypothesis-drawn larger ones",
    "Generated-input search (exploration) with a scenario model as oracle: extraction + resolution of each rendered "
    "document must give one resource per case and attach every model-unambiguous reference to its intended case; "
    "impossible / orphaned id. citations must be left out. Small scenarios (2 cases, <= 4 statements) are enumerated.",
    "Scenario grammar bounds the prose; documents whose extraction shape differs from the written shape are counted and not judged here.",
    "DESIGN.md section 3 / C05",
)
check(
    "C06",
    "exhaustive bounded enumeration of citation-kind sequences (real extracted objects) + property-based testing on extracted lists; partition-validity oracle with independent equality",
    "Exhaustive over all sequences up to length 4 (quick) / 5 (thorough) of a 32-letter alphabet of real citation "
    "objects, plus lists extracted from generated documents; the output mapping is checked as a faithful ordered "
    "partition with an equality decided independently of __eq__/__hash__; short sequences are resolved again together "
    "with copies / pickles of their full citations.",
    "Bounded history length; default resolvers only; corrected_reporter() trusted (C16).",
    "DESIGN.md section 3 / C06-C08",
)
check(
    "C07",
    "exhaustive bounded enumeration + property-based testing against a reference model of candidate sets written from the statement",
    "Same domain as C06; a reference model computes the candidate resources of every non-full citation and each "
    "attachment made by the implementation must be the model's unique candidate (id.: predecessor's resource, "
    "placeholder, numeric pin in [page, page+150]).",
    "Safety direction only (liveness is C05). strip_punct trusted. Bounded history length.",
    "DESIGN.md section 3 / C06-C08",
)
check(
    "C08",
    "exhaustive bounded enumeration + property-based testing; prefix (metamorphic) oracle: resolve(prefix) == restriction of resolve(whole)",
    "Same domain as C06; for every prefix of every enumerated / extracted list the resolution of the prefix must equal "
    "the restriction of the resolution of the whole list (groups, members, order).",
    "Bounded history length; default resolvers only.",
    "DESIGN.md section 3 / C06-C08",
)

check(
    "C09",
    "property-based testing: round-trip oracle (strip the inserted sentinel strings, compare with the target text) over generated plain/source/span/mode/engine tuples",
    "Generated-input search (exploration): for generated plain texts, span sets (overlapping, empty, unsorted, "
    "touching), optional source texts, three tag modes and both diff engines, deleting the unique before/after "
    "sentinels from the output must give back the target text exactly; includes tag-rich plain texts, a style-pair "
    "shape and spans extracted from marked-up documents.",
    "before/after strings are private-use sentinels without backslashes that do not occur in the texts.",
    "DESIGN.md section 3 / C09",
)
check(
    "C10",
    "property-based testing: forced-alignment oracle (inserted alphabet disjoint from the plain alphabet makes the expected source position of every character known) + monotonicity/in-range predicate over arbitrary string pairs",
    "Generated-input search (exploration): exact extents for annotations under forced alignment with the minimal-diff "
    "engine, exact count/content/order without a source text, and monotone in-range offset translation for arbitrary "
    "string pairs with both diff engines.",
    "Exact positions are asserted only for the minimal-diff engine (difflib is not a minimal diff).",
    "DESIGN.md section 3 / C10",
)
check(
    "C11",
    "property-based testing: generated well-formed element trees x span sets x {skip, wrap}; lxml as well-formedness judge, text-content round trip",
    "Generated-input search (exploration): for random well-formed trees and span sets, the annotated output of 'skip' "
    "and 'wrap' must parse with lxml, keep the text content, and (wrap) contain every requested non-covered annotation.",
    "lxml.etree.fromstring is the judge (the parser eyecite itself uses).",
    "DESIGN.md section 3 / C11",
)
check(
    "C20",
    "property-based testing: differential against character-level reference scanners, algebraic laws (composition, idempotence), generated HTML trees with known visible text",
    "Generated-input search (exploration): composition law, ValueError on unknown steps, idempotence and agreement "
    "with regex-free reference scanners for the three text cleaners over a hostile whitespace alphabet; html() "
    "against the visible text known from the generated tree.",
    "HTML trees avoid constructs that the HTML parser restructures.",
    "DESIGN.md section 3 / C20",
)

check(
    "C15",
    "property-based testing with harness-owned nondeterminism: differential across fresh processes with different PYTHONHASHSEED, data-encoded call histories, and a deterministic cooperative thread scheduler (sys.settrace) driven by Hypothesis-drawn schedules plus exhaustive single-preemption sweeps (cold start on a geometric grid, warm tokenizer at every line event)",
    "Generated-input search (exploration) over texts x hash seeds x call histories x thread schedules: canonical "
    "serialisations of get_citations results must be identical across fresh interpreters with different hash seeds, "
    "across positions in generated call histories (earlier results re-serialised after every step), and under "
    "generated line-granularity thread schedules and a free-running stress variant.",
    "Schedules are sampled at Python-line granularity inside eyecite frames; hash seeds are sampled; preemption inside C extensions is not modelled.",
    "DESIGN.md section 3 / C15",
)

check(
    "C16",
    "exhaustive enumeration of single-candidate reporter variations + property-based testing of equivalence-relation laws over generated citation pools with an independent equality oracle; round trip through corrected_citation()",
    "Exhaustive over every plain-shape case-reporter variation with one candidate edition (==, hash, Resource, "
    "re-parse fixed point), plus generated pools in which == must coincide with an independently decided equality and "
    "satisfy reflexivity, symmetry, transitivity, hash and Resource consistency, identity-only and cross-kind laws.",
    "corrected_reporter()/guess_edition are exercised through the round trip and the variation table from reporters-db; pools use a fixed family of templates.",
    "DESIGN.md section 3 / C16",
)

check(
    "C19",
    "property-based testing: differential (markup mode vs cleaned-text mode) on generated marked-up scenario documents + well-foundedness predicate for every reference citation",
    "Generated-input search (exploration): scenario documents rendered as markup (so that references occur) and "
    "marked-up grammar documents; non-reference citations must be identical in both modes and every reference must "
    "have valid offsets, a valid name found at its span, and an earlier full case citation carrying that name.",
    "clean_text trusted (C20); DISALLOWED_NAMES read as data; the validity rule itself re-implemented.",
    "DESIGN.md section 3 / C19",
)

check(
    "C14",
    "differential property-based testing (Hyperscan vs reference tokenizer at candidate and citation level on generated multi-byte documents and on every string derived from one extractor per template shape) + fault injection on the cache file (truncation lengths, bit flips, header fields, garbage) observed from child processes",
    "Generated-input search plus fault enumeration: candidate containment and genuineness of extras on generated "
    "documents in the stated character domain; every truncation length class (thorough: every length) and header bit "
    "of a freshly written cache file, plus sampled body corruptions, must lead to the same tokens as without a cache, "
    "without raising or crashing.",
    "Genuineness of an extra candidate is judged on the pattern's core plus the real neighbour characters; the extractor candidates are narrowed with the Aho-Corasick filter (C13).",
    "DESIGN.md section 3 / C14",
)

check(
    "C01",
    "model-based property testing with a ground-truth writer: exhaustive enumeration of reporters-db strings x minimal forms, all db examples and court strings, plus Hypothesis-sampled full forms; every expected value comes from the writer or from reporters-db/courts-db, none from eyecite",
    "Exhaustive over the finite sub-domains (every plain-shape string in three minimal forms, every reporters-db "
    "example, every parenthetical-safe court string) plus generated-input search over the component space of the "
    "standard forms; the extraction must return exactly the written citation with the written components and offsets.",
    "The writer's vocabulary bounds 'neutral prose'; preconditions of the statement (single pattern reading, documented terminators) are computed independently and counted when they exclude a case.",
    "DESIGN.md section 3 / C01",
)


def build():
    all_ids = [f"C{i:02d}" for i in range(1, 21)]
    checks = []
    for pid in all_ids:
        if pid not in CHECKS:
            continue
        c = CHECKS[pid]
        checks.append(
            {
                "property_id": pid,
                "quick_cmd": f"bin/check {pid} --tier quick",
                "thorough_cmd": f"bin/check {pid} --tier thorough",
                "evidence_file": f"evidence/{pid}.json",
                "replay_cmd_template": f"bin/check {pid} --replay {{path}}",
                "engine": "vf",
                "level_claimed": {"category": "exploration", "text": c["text"], "design_ref": c["design_ref"]},
                "level_note": c["note"],
                "technique": c["technique"],
            }
        )
    na = [
        {"property_id": pid, "reason": NOT_APPLICABLE.get(pid, "check not built yet in this round (planned in DESIGN.md section 3); not claimed until it exists")}
        for pid in all_ids
        if pid not in CHECKS
    ]
    man = {
        "version": 1,
        "setup_cmd": "bin/setup",
        "hooks": {
            "guard": "EYECITE_VERIF",
            "enable": "no hooks exist: checks import eyecite from /repo's working tree (PYTHONPATH=/repo) and observe public API only; bin/check exports EYECITE_VERIF=1 for form",
            "baseline_off_cmd": "cd /repo && /venv/bin/python -m pytest -ra -q -p no:cacheprovider --timeout=900 --continue-on-collection-errors",
            "source_commits": [],
            "add_only": True,
        },
        "engines": [
            {
                "name": "vf",
                "path": "vf/",
                "serves_properties": [c["property_id"] for c in checks],
                "kind_free_text": "Hypothesis-driven generated-input search with explicit oracles, root-cause bucketing, "
                "ddmin shrinking to library-free replay files; 16 forked workers",
            }
        ],
        "checks": checks,
        "not_applicable": na,
        "notes": "Exit 0 = held on everything explored (KNOWN-FINDING lines for listed open findings); exit 1 = VIOLATION lines; "
        "exit 2 = harness error. VERIF_SEED and VERIF_TIER honoured. See DESIGN.md.",
    }
    with open(os.path.join(HOME, "MANIFEST.json"), "w") as f:
        json.dump(man, f, indent=1)
    return man


if __name__ == "__main__":
    m = build()
    print("checks:", [c["property_id"] for c in m["checks"]])
