"""Database inventory computed at run time from the installed reporters_db / courts_db.

Nothing here imports eyecite: the inventory is the independent ground truth that oracles use
(which editions a reporter string may denote, which source wins, edition dates).
"""
from __future__ import annotations

import re
from collections import defaultdict
from dataclasses import dataclass, field
from functools import lru_cache
from typing import Dict, List, Optional, Tuple

from reporters_db import JOURNALS, LAWS, REPORTERS


@dataclass
class Ed:
    source: str  # reporters | laws | journals
    reporter_key: str  # top-level key
    name: str  # edition short name
    start_year: Optional[int]
    end_year: Optional[int]
    templates: Tuple[str, ...]
    cite_type: str
    plain: bool  # uses the default $full_cite template only
    examples: Tuple[str, ...] = ()
    reporter_name: str = ""  # distinguishes the sources that share one top-level key (e.g. two 'Dall.' reporters)


@dataclass
class Inventory:
    editions: List[Ed] = field(default_factory=list)
    # string -> list of (Ed, kind) where kind is "exact" | "variation"
    by_string: Dict[str, List[Tuple[Ed, str]]] = field(default_factory=lambda: defaultdict(list))


def _year(d):
    return d.year if d is not None else None


@lru_cache(maxsize=1)
def inventory() -> Inventory:
    inv = Inventory()
    for key, cluster in REPORTERS.items():
        for src in cluster:
            variations = src.get("variations", {})
            for ename, edata in src["editions"].items():
                templates = tuple(edata.get("regexes") or ["$full_cite"])
                ed = Ed("reporters", key, ename, _year(edata.get("start")), _year(edata.get("end")), templates,
                        src.get("cite_type", ""), templates == ("$full_cite",), tuple(src.get("examples", []) or ()), src.get("name", ""))
                inv.editions.append(ed)
                inv.by_string[ename].append((ed, "exact"))
                for v, target in variations.items():
                    if target == ename:
                        inv.by_string[v].append((ed, "variation"))
    for source_name, db in (("laws", LAWS), ("journals", JOURNALS)):
        for key, cluster in db.items():
            for src in cluster:
                templates = tuple(src.get("regexes") or ["$full_cite"])
                ed = Ed(source_name, key, key, _year(src.get("start")), _year(src.get("end")), templates,
                        src.get("cite_type", ""), templates == ("$full_cite",), tuple(src.get("examples", []) or ()), src.get("name", ""))
                inv.editions.append(ed)
                inv.by_string[key].append((ed, "exact"))
                for v in src.get("variations", []) or []:
                    inv.by_string[v].append((ed, "variation"))
    return inv


def users(string: str) -> List[Tuple[Ed, str]]:
    """exact users of the string if any, else variation users (what eyecite calls candidates)."""
    u = inventory().by_string.get(string, [])
    exact = [x for x in u if x[1] == "exact"]
    return exact or u


def expected_class(string: str) -> Optional[str]:
    srcs = {e.source for e, _ in users(string)}
    if "reporters" in srcs:
        return "FullCaseCitation"
    if "laws" in srcs:
        return "FullLawCitation"
    if "journals" in srcs:
        return "FullJournalCitation"
    return None


@lru_cache(maxsize=1)
def plain_strings() -> List[str]:
    """Reporter strings all of whose users (exact-else-variation) use the plain $full_cite shape."""
    inv = inventory()
    out = []
    for s, us in inv.by_string.items():
        if all(e.plain for e, _ in us):
            out.append(s)
    return sorted(out)


@lru_cache(maxsize=1)
def case_plain_strings() -> List[str]:
    return [s for s in plain_strings() if expected_class(s) == "FullCaseCitation"]


@lru_cache(maxsize=1)
def all_strings() -> List[str]:
    return sorted(inventory().by_string.keys())


@lru_cache(maxsize=1)
def multi_candidate_strings() -> List[str]:
    """plain strings with >= 2 distinct candidate editions (ambiguous editions)."""
    out = []
    for s in plain_strings():
        us = users(s)
        if len({(e.reporter_key, e.reporter_name, e.name, e.source) for e, _ in us}) >= 2:
            out.append(s)
    return out


@lru_cache(maxsize=1)
def single_candidate_variations() -> List[Tuple[str, str]]:
    """(variation string, canonical edition name) for plain case reporters with exactly one candidate."""
    inv = inventory()
    out = []
    for s, us in inv.by_string.items():
        if any(k == "exact" for _, k in us):
            continue
        # the plain volume-reporter-page shape must be among the edition's templates (it need not be the only one:
        # several templates matching the same text is exactly the case where identical tokens get merged)
        if not all("$full_cite" in e.templates for e, _ in us):
            continue
        eds = {(e.reporter_key, e.reporter_name, e.name) for e, _ in us}
        if len(eds) == 1 and all(e.source == "reporters" for e, _ in us):
            e = us[0][0]
            out.append((s, e.name))
    return sorted(set(out))


@lru_cache(maxsize=1)
def examples() -> List[Tuple[str, str]]:
    """(example citation, source) from reporters-db."""
    out = []
    seen = set()
    for key, cluster in REPORTERS.items():
        for src in cluster:
            for ex in src.get("examples", []) or []:
                if ex not in seen:
                    seen.add(ex)
                    out.append((ex, "reporters"))
    for name, db in (("laws", LAWS), ("journals", JOURNALS)):
        for key, cluster in db.items():
            for src in cluster:
                for ex in src.get("examples", []) or []:
                    if ex not in seen:
                        seen.add(ex)
                        out.append((ex, name))
    return out


@lru_cache(maxsize=1)
def court_strings() -> List[Tuple[str, str]]:
    """(citation_string, expected court id) for parenthetical-safe court strings.

    Expected id re-implements 'exact match preferred': the first courts-db entry whose
    normalised citation string equals the normalised written string.
    """
    from courts_db import courts

    def norm(s):
        return re.sub(r"[^\w]", "", s).lower()

    first: Dict[str, str] = {}
    for c in courts:
        n = norm(c.get("citation_string", "") or "")
        if n and n not in first:
            first[n] = str(c["id"])
    out = []
    seen = set()
    for c in courts:
        s = c.get("citation_string", "") or ""
        if not s or s in seen:
            continue
        seen.add(s)
        if re.search(r"[()\[\];]|\d{4}", s) or s != s.strip() or "\n" in s:
            continue
        n = norm(s)
        if not n:
            continue
        out.append((s, first[n]))
    return out


NOMINATIVE_NAMES = ["Thompson", "Cooke", "Holmes", "Olcott", "Chase", "Gilmer", "Bee", "Deady", "Taney"]


@lru_cache(maxsize=1)
def ambiguous_court_prefixes() -> List[Tuple[str, Tuple[str, ...]]]:
    """(abbreviated court string, full citation strings it is a proper prefix of) for abbreviations that have no exact
    courts-db entry and are a prefix (after normalisation) of at least two entries: the documented fallback has to
    choose among several courts there, so these are the strings on which a choice could depend on something other
    than the text."""
    from courts_db import courts

    def norm(s):
        return re.sub(r"[^\w]", "", s).lower()

    entries = []
    for c in courts:
        s = c.get("citation_string", "") or ""
        if s and not re.search(r"[()\[\];]|\d{4}", s) and s == s.strip() and "\n" not in s:
            entries.append((s, norm(s)))
    exact = {n for _, n in entries}
    allnorm = [norm(c.get("citation_string", "") or "") for c in courts]
    out = {}
    for s, _ in entries:
        words = s.split(" ")
        for k in range(1, len(words)):
            t = " ".join(words[:k])
            n = norm(t)
            if len(n) < 3 or n in exact or t in out:
                continue
            if sum(1 for x in allnorm if x.startswith(n)) < 2:
                continue
            fulls = tuple(sorted({f for f, fn in entries if fn.startswith(n)}))
            if len(fulls) >= 2:
                out[t] = fulls
    return sorted(out.items())
