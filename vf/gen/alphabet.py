"""Citation-kind alphabet: 32 letters, each a snippet from which the real extractor builds the object."""

ALPHA = [
    # name, snippet, class name, index among citations of that class in the snippet
    ("FA", "Alpha v. Beta, 10 U.S. 100 (1999).", "FullCaseCitation", 0),
    # same case, variant spelling, and a year in which the reporters-db edition of U.S. (1875-) was not yet published:
    # neither the spelling nor the year decides which document is cited
    ("FA2", "Alpha v. Beta, 10 U. S. 100, 105 (1803) (same case, variant spelling).", "FullCaseCitation", 0),
    ("FA0", "See 10 U.S., 100 (1999).", "FullCaseCitation", 0),  # case A again, without party names and in the comma form
    ("FB", "Gamma v. Delta, 10 U.S. 200 (2001).", "FullCaseCitation", 0),  # same reporter+volume as A
    ("FC", "Alpha v. Omega, 30 F.2d 300 (1950).", "FullCaseCitation", 0),  # shares a party name with A
    ("FP", "Sigma v. Tau, 585 U.S. ___ (2018).", "FullCaseCitation", 0),  # placeholder page
    ("FH", "Eta v. Theta, 10 Hill 100.", "FullCaseCitation", 0),  # ambiguous reporter string (several 'Hill' reporters), no year
    ("FO", "O'Brien v. D'Arcy, 40 F.3d 400 (1995).", "FullCaseCitation", 0),  # party names that punctuation stripping changes
    ("LAW", "Mass. Gen. Laws ch. 1, § 2.", "FullLawCitation", 0),
    ("JRN", "1 Minn. L. Rev. 1.", "FullJournalCitation", 0),
    ("JP", "1 Minn. L. Rev. ___.", "FullJournalCitation", 0),  # journal with a placeholder page
    ("S_A", "Beta, 10 U.S., at 101.", "ShortCaseCitation", 0),  # (U.S., 10) shared by A and B; antecedent -> A
    ("S_amb", "10 U.S., at 102.", "ShortCaseCitation", 0),  # no antecedent
    ("S_C", "30 F.2d at 301.", "ShortCaseCitation", 0),  # unique to C
    ("S_for", "77 F.3d at 5.", "ShortCaseCitation", 0),  # foreign
    ("S_Cr", "10 Cranch, at 55.", "ShortCaseCitation", 0),  # another ambiguous reporter string, same volume as FH
    ("S_P", "585 U.S., at 5.", "ShortCaseCitation", 0),  # short form of the placeholder-page case P
    ("S_far", "30 F.2d, at 900.", "ShortCaseCitation", 0),  # short form of C whose own page is far beyond C's first page
    ("S_ser", "30 F.3d at 301.", "ShortCaseCitation", 0),  # C's volume in another series of the same reporter (F.2d / F.3d)
    ("SU_B", "Delta, supra, at 201.", "SupraCitation", 0),  # unique name -> B
    ("SU_amb", "Alpha, supra, at 5.", "SupraCitation", 0),  # A and C share Alpha
    ("SU_unk", "\u0417\u0435\u0442\u0430, supra.", "SupraCitation", 0),  # a name (in Cyrillic) that no cited case bears
    ("SU_vol", "Alpha, 10 supra, at 5.", "SupraCitation", 0),  # supra carrying a volume (A's); Alpha is shared by A and C
    ("REF_B", "Gamma v. Delta, 10 U.S. 200 (2001). In Gamma at 201 we see.", "ReferenceCitation", 0),
    ("REF_O", "O'Brien v. D'Arcy, 40 F.3d 400 (1995). In O'Brien at 405 we see.", "ReferenceCitation", 0),
    ("SU_O", "D'Arcy, supra, at 402.", "SupraCitation", 0),
    ("ID", "Id.", "IdCitation", 0),
    ("ID_ok", "Id. at 101.", "IdCitation", 0),
    ("ID_far", "Id. at 999.", "IdCitation", 0),
    ("ID_edge", "Id. at 251.", "IdCitation", 0),  # one page beyond the window of a case starting at page 100
    ("ID_bad", "Id. at ¶ 7.", "IdCitation", 0),
    ("UNK", "see §99 of it.", "UnknownCitation", 0),
]
LETTERS = [a[0] for a in ALPHA]


def build_pool(copies, only=None):
    """pool[letter][k]: K independent objects per letter so repeated letters are distinct objects."""
    from eyecite import get_citations

    pool = {}
    for name, snippet, cls, idx in ALPHA:
        if only is not None and name != only:
            continue
        objs = []
        for _ in range(copies):
            cs = [c for c in get_citations(snippet) if type(c).__name__ == cls]
            if len(cs) <= idx:
                raise RuntimeError(f"alphabet letter {name}: snippet {snippet!r} yields no {cls} (got {get_citations(snippet)!r})")
            objs.append(cs[idx])
        pool[name] = objs
    return pool
