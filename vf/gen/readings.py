"""Independent enumeration of the 'readings' of a piece of text: which extractor patterns match which characters.

Uses only the pattern strings (data derived from reporters-db templates) and Python's re, not the tokenizers:
a harness-owned Aho-Corasick index narrows the patterns, then each candidate pattern is searched.
"""
import re

_IDX = {}


def _index():
    if _IDX:
        return _IDX
    import ahocorasick
    from eyecite.tokenizers import EXTRACTORS

    auto = ahocorasick.Automaton()
    by = {}
    for i, e in enumerate(EXTRACTORS):
        for s in e.strings:
            by.setdefault(s.lower(), []).append(i)
    for s, idxs in by.items():
        auto.add_word(s, idxs)
    auto.make_automaton()
    _IDX.update(auto=auto, ex=list(EXTRACTORS), nostr=[i for i, e in enumerate(EXTRACTORS) if not e.strings])
    return _IDX


def readings(text, lo, hi):
    """All (type, start, end, non-None groups, short) of pattern matches whose group 1 overlaps [lo, hi)."""
    idx = _index()
    cand = set(idx["nostr"])
    for _, hits in idx["auto"].iter(text.lower()):
        cand.update(hits)
    out = set()
    for i in sorted(cand):
        e = idx["ex"][i]
        rx = e.compiled_regex
        pos = 0
        # overlapping search: advance one character past each match start
        while True:
            m = rx.search(text, pos)
            if not m:
                break
            s, t = m.span(1)
            if s < hi and t > lo:
                groups = tuple(sorted((k, v) for k, v in m.groupdict().items() if v is not None))
                out.add((e.constructor.__self__.__name__, s, t, groups, bool(e.extra.get("short"))))
            pos = m.start() + 1
            if pos > len(text):
                break
    return out
