"""Markup layer: marks up grammar output so that markup-mode extraction has something to find."""
import html as _html
import re

from hypothesis import strategies as st

from . import legal

STEP_LISTS = [
    ["html"],
    ["html", "inline_whitespace"],
    ["html", "all_whitespace"],
    ["all_whitespace", "html"],
    ["html", "inline_whitespace", "underscores"],
    ["inline_whitespace", "html", "all_whitespace"],
]

_WORD = re.compile(r"[A-Z][A-Za-z'&.]+(?: [A-Z][A-Za-z'&.]+)*")


@st.composite
def marked_up(draw, base=None, p_wrap=4):
    """Return (markup, steps): grammar text with entities escaped, names wrapped in <i>/<em>/<b>, paragraphs in <p>."""
    text = draw(base if base is not None else legal.document(hostile=False, multibyte=True, mutate=False))
    out = []
    pos = 0
    for m in _WORD.finditer(text):
        out.append(_html.escape(text[pos:m.start()], quote=False))
        word = m.group(0)
        k = draw(st.integers(0, 9))
        if k < p_wrap:
            tag = draw(st.sampled_from(["i", "em", "i", "em", "b"]))
            lead = draw(st.sampled_from(["", "", " "]))
            # optionally pull trailing punctuation inside the tag
            tail = ""
            nxt = text[m.end():m.end() + 2]
            take = draw(st.integers(0, 2))
            if take and nxt[:1] in ",.;:":
                tail = nxt[:1]
                if take == 2 and nxt[1:2] == " ":
                    tail = nxt[:2]
            inner = _html.escape(word, quote=False)
            if " " in inner and draw(st.integers(0, 2)) == 0:
                # a line wrap / doubled blank inside the name: cleaning rewrites it, the markup keeps it
                inner = inner.replace(" ", draw(st.sampled_from(["  ", "\n", " \n   ", "\t"])))
            out.append(f"<{tag}>{lead}{inner}{_html.escape(tail)}</{tag}>")
            pos = m.end() + len(tail)
        else:
            out.append(_html.escape(word, quote=False))
            pos = m.end()
    out.append(_html.escape(text[pos:], quote=False))
    body = "".join(out)
    k = draw(st.integers(0, 3))
    if k == 0:
        body = "<p>" + body.replace("\n", "</p>\n<p>") + "</p>"
    elif k == 1:
        body = "<div><p>" + body + "</p></div>"
    elif k == 2:
        body = "<span>" + body + "</span>"
    steps = draw(st.sampled_from(STEP_LISTS))
    return {"markup": body, "steps": list(steps)}
