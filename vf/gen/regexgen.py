"""Regex-directed string generation.

`alternatives(pattern, flags)` walks the parsed regex and emits one string per alternative of
every alternation (all other choices at their defaults), so that a pattern that mentions a
reporter in only some alternatives is hit by construction.  The strings are candidates only:
callers keep those that `re.search` confirms (a non-matching candidate is a counted generator
miss, never a finding).
"""
from __future__ import annotations

import re

try:  # Python >= 3.11
    from re import _constants as sc
    from re import _parser as sp
except ImportError:  # pragma: no cover
    import sre_constants as sc
    import sre_parse as sp

_WORDCH = "a"


def _pick_in(items, flags):
    negate = False
    pos = []
    for op, av in items:
        if op is sc.NEGATE:
            negate = True
        else:
            pos.append((op, av))
    if not negate:
        for op, av in pos:
            if op is sc.LITERAL:
                return chr(av)
            if op is sc.RANGE:
                return chr(av[0])
            if op is sc.CATEGORY:
                return _category(av)
        return "a"
    # negated set: find a character not excluded
    for cand in " .,;-(a1§\n":
        if not _in_set(cand, pos):
            return cand
    return "~"


def _in_set(ch, pos):
    for op, av in pos:
        if op is sc.LITERAL and ord(ch) == av:
            return True
        if op is sc.RANGE and av[0] <= ord(ch) <= av[1]:
            return True
        if op is sc.CATEGORY and _cat_match(av, ch):
            return True
    return False


def _cat_match(cat, ch):
    if cat is sc.CATEGORY_DIGIT:
        return ch.isdigit()
    if cat is sc.CATEGORY_NOT_DIGIT:
        return not ch.isdigit()
    if cat is sc.CATEGORY_SPACE:
        return ch.isspace()
    if cat is sc.CATEGORY_NOT_SPACE:
        return not ch.isspace()
    if cat is sc.CATEGORY_WORD:
        return ch.isalnum() or ch == "_"
    if cat is sc.CATEGORY_NOT_WORD:
        return not (ch.isalnum() or ch == "_")
    return False


def _category(cat):
    return {
        sc.CATEGORY_DIGIT: "1",
        sc.CATEGORY_NOT_DIGIT: "a",
        sc.CATEGORY_SPACE: " ",
        sc.CATEGORY_NOT_SPACE: "a",
        sc.CATEGORY_WORD: "a",
        sc.CATEGORY_NOT_WORD: " ",
    }.get(cat, "a")


class _Walker:
    def __init__(self, flags):
        self.flags = flags
        self.branches = []  # list of (branch_id, n_alternatives) discovered
        self.choice = {}  # branch_id -> alternative index
        self.opt = {}  # repeat_id -> count override
        self.repeats = []
        self._bid = 0
        self._rid = 0

    def gen(self, seq):
        out = []
        for op, av in seq:
            if op is sc.LITERAL:
                out.append(chr(av))
            elif op is sc.NOT_LITERAL:
                out.append("a" if av != ord("a") else "b")
            elif op is sc.ANY:
                out.append("x")
            elif op is sc.IN:
                lits = [a for o, a in av if o is sc.LITERAL]
                if 2 <= len(lits) <= 4 and len(lits) == len(av):
                    # a small set of literals is what the parser makes of a single-character alternation
                    # such as (?:'|’): treat it as one
                    bid = self._bid
                    self._bid += 1
                    if bid >= len(self.branches):
                        self.branches.append(len(lits))
                    out.append(chr(lits[min(self.choice.get(bid, 0), len(lits) - 1)]))
                else:
                    out.append(_pick_in(av, self.flags))
            elif op is sc.BRANCH:
                bid = self._bid
                self._bid += 1
                alts = av[1]
                if bid >= len(self.branches):
                    self.branches.append(len(alts))
                k = self.choice.get(bid, 0)
                k = min(k, len(alts) - 1)
                out.append(self.gen(alts[k]))
            elif op is sc.SUBPATTERN:
                out.append(self.gen(av[3]))
            elif op in (sc.MAX_REPEAT, sc.MIN_REPEAT) or getattr(sc, "POSSESSIVE_REPEAT", None) is op:
                lo, hi, sub = av
                rid = self._rid
                self._rid += 1
                if rid >= len(self.repeats):
                    self.repeats.append((lo, hi))
                n = self.opt.get(rid, lo if lo > 0 else 0)
                n = max(lo, min(n, hi if hi is not sc.MAXREPEAT else n))
                for _ in range(n):
                    out.append(self.gen(sub))
            elif op is sc.AT:
                pass  # anchors / boundaries: verified afterwards by re.search
            elif op is sc.CATEGORY:
                out.append(_category(av))
            elif op in (sc.ASSERT, sc.ASSERT_NOT):
                pass
            elif op is sc.GROUPREF:
                pass
            elif getattr(sc, "ATOMIC_GROUP", None) is op:
                out.append(self.gen(av))
            else:  # unknown node: give up on this part
                pass
        return "".join(out)


def alternatives(pattern: str, flags: int = 0, limit: int = 400, depth: int = 2):
    """Yield candidate strings: the default derivation, one per alternative of every alternation - including
    alternations nested inside a non-default alternative, up to `depth` simultaneous choices - and one per optional part.

    Branch ids are assigned in encounter order, so a choice set is only extended with branches encountered after its
    last chosen branch (their ids are stable under that choice set)."""
    try:
        tree = sp.parse(pattern, flags)
    except Exception:
        return
    seen = set()
    count = 0
    queue = [()]  # tuples of (branch id, alternative)
    base_repeats = None
    derivations = []  # (choice, repeats met in that derivation) for derivations with at most one non-default choice
    while queue:
        choice = queue.pop(0)
        w = _Walker(flags)
        w.choice = dict(choice)
        s = w.gen(tree)
        if base_repeats is None:
            base_repeats = list(w.repeats)
        elif len(choice) == 1:
            derivations.append((choice, list(w.repeats)))
        if s not in seen:
            seen.add(s)
            yield s
            count += 1
            if count >= limit:
                return
        if len(choice) < depth:
            last = choice[-1][0] if choice else -1
            for bid in range(last + 1, len(w.branches)):
                for k in range(1, w.branches[bid]):
                    queue.append(choice + ((bid, k),))
    for choice, repeats in [((), base_repeats or [])] + derivations:
        for rid, (lo, hi) in enumerate(repeats):
            # every optional part once; every repeatable part once more than its minimum (a quantifier that binds to
            # the wrong unit - the last byte of a multi-byte literal, say - still matches the minimum)
            more = [1] if lo == 0 else []
            if hi is sc.MAXREPEAT or hi >= lo + 2 or (lo == 0 and hi >= 2):
                more.append(lo + 2 if lo == 0 else lo + 1)
            for n in more:
                if n <= lo:
                    continue
                w2 = _Walker(flags)
                w2.choice = dict(choice)
                w2.opt = {rid: n}
                s = w2.gen(tree)
                if s not in seen:
                    seen.add(s)
                    yield s
                    count += 1
                    if count >= limit:
                        return


_CI_EQUIV = None


def ci_equivalents():
    """Non-ASCII characters that Python's re.I equates with an ASCII letter, computed (not hard-coded)."""
    global _CI_EQUIV
    if _CI_EQUIV is None:
        out = {}
        for letter in "abcdefghijklmnopqrstuvwxyz":
            pat = re.compile(letter, re.I)
            for cp in range(128, 0x3000):
                ch = chr(cp)
                if pat.fullmatch(ch):
                    out.setdefault(letter, []).append(ch)
        _CI_EQUIV = out
    return _CI_EQUIV


def shape_key(regex: str) -> str:
    """The pattern with the content of its (?P<reporter>...) group masked: extractors built from one template for
    different reporters share a shape."""
    i = regex.find("(?P<reporter>")
    if i < 0:
        return regex
    depth = 0
    j = i
    while j < len(regex):
        ch = regex[j]
        if ch == "\\":
            j += 2
            continue
        if ch == "(":
            depth += 1
        elif ch == ")":
            depth -= 1
            if depth == 0:
                break
        j += 1
    return regex[:i] + "(?P<reporter>R)" + regex[j + 1:]


def shape_representatives(extractors):
    """[(index, extractor)] - the first extractor of every distinct shape."""
    seen = {}
    for i, e in enumerate(extractors):
        k = (shape_key(e.regex), e.flags, bool(getattr(e, "extra", {}).get("short")))
        if k not in seen:
            seen[k] = (i, e)
    return list(seen.values())
