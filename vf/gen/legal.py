"""Legal-text grammar as Hypothesis strategies (all randomness is Hypothesis draws)."""
from __future__ import annotations

import datetime

from hypothesis import strategies as st

from . import inventory as inv

THIS_YEAR = datetime.date.today().year

COMMON_REPS = [
    "U.S.", "U. S.", "S. Ct.", "S.Ct.", "F.2d", "F.3d", "F. Supp. 2d", "A.2d", "A. 2d", "Cal.App.4th",
    "Cal.Rptr.3d", "N.E.", "Wn. App.", "Wash.", "Johnson", "Cranch", "Thompson", "Cooke", "Holmes", "Olcott",
    "Chase", "Gilmer", "Bee", "Miles", "Ga.", "Mass.", "P.R.", "L.Ed.2d", "NY2d", "Idaho", "P2d", "B.R.",
    "Pa. D. & C.5th", "MT", "Mich.", "So.2d", "T.C.", "Rob.", "Wheat.", "Dall.", "F.", "P.", "Smith", "Taney", "Deady",
]
NAMES = [
    "Foo", "Bar", "Smith", "Jones", "Thompson", "Cooke", "Holmes", "Olcott", "Chase", "Gilmer", "Bee", "Taney",
    "Deady", "United States", "State", "Bell Atlantic Corp.", "Twombly", "Nobelman", "Am. Sav. Bank", "K.F.", "Roe",
    "Wade", "Inc.", "Miles", "AT&T", "O'Brien", "Peña", "Lissner", "Shapiro", "Adarand", "Wilkins", "Zubrek",
    "Nun\u0303ez", "M\u00fcller", "al-Kidd", "D'Amato", "\u0141o\u015b",
    # not names at all: what is left of a caption after bad OCR or redaction
    "[[[", '"""', "\u201c\u2018(", "[ [", "___", "...", "De Leon", "DeLeon", "Van Buren", "X", "\u00a7\u00a7\u00a7",
]
STOPS = ["v.", "v", "In re", "Ex parte", "see", "See", "citing", "cert. denied", "aff'd", "aff'd", "aff’d,", "affirmed", "remanded",
         "granted", "dismissed", "See also", "But see"]
LAWS = [
    "Mass. Gen. Laws ch. 1, § 2", "42 U.S.C. § 1983", "18 U. S. C. §§4241-4243", "Fla. Stat. § 120.68 (2007)",
    "Ariz. Rev. Stat. Ann. § 36-3701 et seq. (West 2009)", "1 Stat. 2", "§99", "§ 5",
    "Kan. Stat. Ann. § 21-3516(a)(2) (repealed)", "29 C.F.R. § 1910.1200(b)", "Pub. L. No. 111-148",
    "Tex. Penal Code Ann. § 12.01 (West Supp. 2019)", "N.Y. Penal Law § 125.25 (McKinney May 2, 1999)",
]
JOUR = ["1 Minn. L. Rev. 1", "77 Marq. L. Rev. 475 (1993-94)", "66 B.U. L. Rev. 71 (1986)", "1 Minn. L. Rev. ___",
        "100 Harv. L. Rev. 5, 17-19 (1986) (arguing x)", "12 Yale L.J. 33"]
WORDS = ["the", "court", "held", "that", "and", "so", "on", "at", "in", "of", "a", "plan", "case", "holding",
         "Court", "supra", "id.", "ibid.", "note", "n.", "p.", "The", "We", "agree", "with", "this"]
PUNCT = [".", ",", ";", ":", "(", ")", "[", "]", "”", "“", "'", '"', "—", "-", " ", "  ", "\n", "\t", " ", "§",
         "¶", "*", "_", "___", "&"]
# hostile fragments: NBSP and other Unicode spaces, non-ASCII digits, NUL / C0, lone brackets, digit runs,
# section signs glued to words, re.I case equivalents, quotes, BOM
HOSTILE = [" ", " ", "　", "٣", "４", "\x00", "\x1f", "((", "))", "[", "]]", "9999999999999999999999",
           "§x", "x§", "ſ", "İ", "ı", "K", " ", "é", "ü", "‘", "’", "﻿", "\x0c", "\x85", "\r\n"]
MULTIBYTE = ["“", "”", "‘", "’", "—", "–", "é", "ü", "ñ", "§", "¶", "…", "€", "✓", "𝒜",
             # not in Unicode normal form C: letter + combining mark, and singletons that NFC replaces
             "re\u0301sume\u0301", "n\u0303", "\u212b", "\u2126", "\ufb01"]
NOT_NFC = ["re\u0301sume\u0301", "a\u0308", "\u212b", "\u2126", "e\u0301"]

WS_VARIANTS = ["\n", "\t", "  ", " (", "(( ", " [", "\n\n", ", ", "\r\n", ") "]

SEPARATORS = [". ", "; ", ", ", " ", ". ", ". ", "\n", " (", ") ", ": ", " — ", ".\n", "  "]

_num = st.sampled_from(["1", "2", "5", "12", "99", "100", "123", "550", "999", "1000", "2020", "12345"]) | st.integers(1, 999).map(str)
_page = st.one_of(_num, _num, _num, st.sampled_from(["___", "_", "xiv", "lxiv", "12a", "____"]))
_year = st.one_of(
    st.sampled_from(["1999", "2005", "1887", "1600", "1599", "2100", "0000", "1993-94", "19999",
                     str(THIS_YEAR), str(THIS_YEAR + 1), str(THIS_YEAR + 2), str(THIS_YEAR - 1)]),
    st.integers(1750, THIS_YEAR).map(str),
)
_court = st.sampled_from(["", "4th Cir. ", "Pa.Super. ", "D. Kan. ", "SC ", "Bankr.D. Utah ", "1st Cir.", "N.D. Cal. ", "Mass. "])
_paren = st.sampled_from(["", " (overruling foo)", " (discussing abc (Holmes, J., concurring))", " (quoting 2 F.2d 2, 3)",
                          " (same) (ignore this)", " (", " )", " (en banc)", " (  holding that x)", " (\t discussing (a) that y) (en banc)",
                          " (   overruled on other grounds ) (citing Baz)", " ()", " (1994 ed.)", "(same)"])


@st.composite
def reporter(draw):
    k = draw(st.integers(0, 9))
    if k < 6:
        return draw(st.sampled_from(COMMON_REPS))
    if k < 8:
        return draw(st.sampled_from(inv.plain_strings()))
    if k < 9:
        return draw(st.sampled_from(inv.multi_candidate_strings()))
    return draw(st.sampled_from(inv.all_strings()))


@st.composite
def pin(draw):
    k = draw(st.integers(0, 11))
    n = draw(_num)
    if k <= 2:
        return ""
    if k == 3:
        return draw(st.sampled_from([", ", ", ", ", ", " , ", ",", ",  "])) + n
    if k == 4:
        return ", " + n + "-" + draw(_num)
    if k == 5:
        return ", at " + n
    if k == 6:
        return " at " + n
    if k == 7:
        return ", " + n + " n. 4"
    if k == 8:
        return ", ¶ " + n
    if k == 9:
        return ", *" + n
    if k == 10:
        return ", " + n + ", " + draw(_num)
    return ", " + n + ":" + draw(_num)


@st.composite
def full(draw):
    s = f"{draw(_num)} {draw(reporter())}{draw(st.sampled_from([' ', ', ', ' ']))}{draw(_page)}{draw(pin())}"
    k = draw(st.integers(0, 9))
    if k < 5:
        s += f" ({draw(_court)}{draw(_year)}){draw(_paren)}"
    elif k < 6:
        s += f" [{draw(_court)}{draw(_year)}]"
    return s


_name = st.sampled_from(NAMES)


@st.composite
def named(draw):
    k = draw(st.integers(0, 9))
    if k < 6:
        pre = f"{draw(_name)} {draw(st.sampled_from(['v.', 'v', 'v.']))} {draw(_name)}"
    elif k < 8:
        pre = f"{draw(st.sampled_from(['In re', 'Ex parte']))} {draw(_name)}"
    else:
        pre = draw(_name)
    if draw(st.integers(0, 11)) == 0:
        # the name-first form with the pin cite in front of the citation: "Bar at 7, 1 U.S. 1"
        pre = f"{draw(_name)} at {draw(_num)}"
    if draw(st.integers(0, 14)) == 0:
        # an excerpt cut inside a caption: the stop word is the first word, no plaintiff precedes it
        pre = f"{draw(st.sampled_from(['v.', 'v. ', 'v']))} {draw(_name)}".replace("  ", " ")
    if draw(st.integers(0, 6)) == 0:
        pre += f" ({draw(_year)})"
    sep = draw(st.sampled_from([", ", " ", ", ", ",  "]))
    s = pre + sep + draw(full())
    for _ in range(2):  # up to three parallel citations
        if draw(st.integers(0, 2)) != 0:
            break
        s += ", " + draw(full())
    return s


@st.composite
def short(draw):
    ante = draw(st.sampled_from(["", "N, ", "N "])).replace("N", draw(_name))
    tail = draw(st.sampled_from(["", "-N", " n. 3", "", ", § N", " § N"])).replace("N", draw(_num))
    par = draw(_paren) if draw(st.integers(0, 2)) == 0 else ""
    page = draw(_num) if draw(st.integers(0, 9)) else draw(st.sampled_from(["___", "_", "____"]))  # the page may be a placeholder
    return f"{ante}{draw(_num)} {draw(reporter())}{draw(st.sampled_from([',', '']))} at {page}{tail}{par}"


@st.composite
def short_parallel(draw):
    # A v. B, 550 U.S. at 556, 127 S.Ct. 1955
    return f"{draw(_name)} v. {draw(_name)}, {draw(_num)} {draw(reporter())} at {draw(_num)}, {draw(_num)} {draw(reporter())} {draw(_num)}"


@st.composite
def supra(draw):
    n = draw(_num)
    tail = draw(st.sampled_from([",", "", ".", ", at N", " at N", ", at N-M", ", § N", ", §§ N, M", " at § N"])).replace("N", n).replace("M", draw(_num))
    return f"{draw(_name)}, {draw(st.sampled_from(['', n + ' ']))}supra{tail}"


@st.composite
def idc(draw):
    n = draw(_num)
    tail = draw(st.sampled_from([" at N", "", " at N-M", " ¶ N", " at *N", ", at N", " at N (same)", " § N", " at § N", " §§ N, M", " at N-M"])).replace("N", n).replace("M", draw(_num))
    return draw(st.sampled_from(["Id.", "id.", "Ibid.", "Id.,", "ibid."])) + tail


@st.composite
def ref(draw):
    return f"{draw(_name)} at {draw(_num)}"


_PATTERN_STRINGS = []


def pattern_strings():
    """Strings derived from every citation extractor's own pattern (full and short forms of every template,
    including the special ones: neutral cites, nominative forms, statutes), one per alternative for the first few
    alternatives. Each is confirmed to match its pattern; built once per process."""
    if not _PATTERN_STRINGS:
        from eyecite.tokenizers import EXTRACTORS

        from . import regexgen

        seen = set()
        for e in EXTRACTORS[:-5]:
            cands = list(regexgen.alternatives(e.regex, e.flags, limit=80))
            # the default derivation, a few alternation choices, and the optional parts (they come last)
            pick = {0, 1, len(cands) // 2, len(cands) - 3, len(cands) - 2, len(cands) - 1}
            for i in sorted(i for i in pick if 0 <= i < len(cands)):
                m = e.compiled_regex.search(cands[i])
                if m and m.group(1).strip() and m.group(1).strip() not in seen:
                    seen.add(m.group(1).strip())
                    _PATTERN_STRINGS.append(m.group(1).strip())
    return _PATTERN_STRINGS


@st.composite
def pattern_citation(draw):
    s = draw(st.sampled_from(pattern_strings()))
    # vary the numbers a little so that volumes / pages are not always '1'
    if draw(st.booleans()):
        d = draw(st.sampled_from(["2", "7", "12", "345"]))
        s = s.replace("1", d, 1)
    j = draw(st.integers(0, 7))
    if j == 0:
        return f"{draw(_name)} v. {draw(_name)}, {s} ({draw(_year)})"
    if j == 1:
        return f"{s}{draw(pin())} ({draw(_court)}{draw(_year)}){draw(_paren)}"
    if j == 2:
        return f"{draw(_name)}, {s}{draw(st.sampled_from(['.', ';', ',', ' (same).', '']))}"
    if j == 3:
        return f"{s}{draw(st.sampled_from(['(a)', '(a)(2)', '(1)', ' et seq.', '(b) and (c)']))}"
    return s


@st.composite
def law(draw):
    base = draw(st.one_of(st.sampled_from(LAWS), st.sampled_from([e for e, src in inv.examples() if src == "laws"])))
    sub = draw(st.sampled_from(["", "", "(a)", "(a)(2)", "(1)", "(b)(1)(A)", " et seq.", "(a) and (b)"]))
    post = draw(st.sampled_from(["", "", " (1999)", " (West 2009)", " (McKinney May 2, 1999)", " (Supp. 2012)", " (repealed)"]))
    return base + sub + post


@st.composite
def fragment(draw, hostile=True, multibyte=False):
    k = draw(st.integers(0, 99))
    if k < 25:
        return draw(named())
    if k < 35:
        return draw(full())
    if k < 45:
        return draw(short())
    if k < 48:
        return draw(short_parallel())
    if k < 55:
        return draw(supra())
    if k < 65:
        return draw(idc())
    if k < 71:
        return draw(ref())
    if k < 72:
        return draw(law())
    if k < 74:
        return draw(st.sampled_from(JOUR))
    if k < 77:
        return draw(pattern_citation())
    if k < 80:
        # a reporters-db example citation (covers the special templates: neutral cites, nominative forms, statutes),
        # bare, named, or followed by a year / pin / parenthetical
        ex = draw(st.sampled_from(inv.examples()))[0]
        j = draw(st.integers(0, 5))
        if j == 0:
            return f"{draw(_name)} v. {draw(_name)}, {ex} ({draw(_year)})"
        if j == 1:
            return f"{ex}{draw(pin())} ({draw(_court)}{draw(_year)}){draw(_paren)}"
        if j == 2:
            return f"{draw(_name)}, {ex}"
        return ex
    if k < 81:
        a, b = draw(_name), draw(_name)
        fill = " ".join(draw(st.lists(st.sampled_from(WORDS[:12] + NOT_NFC + ["\u201cquoted\u201d", "\u00a7 5"]), min_size=0, max_size=6)))
        return f"{a} v. {b}, {draw(full())}. {fill} {draw(st.sampled_from([a, b]))} at {draw(_num)}"
    if k < 84:
        return draw(st.sampled_from(STOPS))
    if k < 94 or not (hostile or multibyte):
        if draw(st.integers(0, 24)) == 0:
            # a long run of plain words: pushes neighbouring citations beyond the 300-character / 28-token scan windows
            n = draw(st.sampled_from([30, 60, 90]))
            return " ".join(draw(st.lists(st.sampled_from(WORDS[:15]), min_size=n, max_size=n)))
        return " ".join(draw(st.lists(st.sampled_from(WORDS), min_size=1, max_size=5)))
    if hostile:
        return draw(st.sampled_from(HOSTILE))
    return draw(st.sampled_from(MULTIBYTE))


DEGENERATE = ["", " ", "\n", "1", "\u00a7", "Id.", "supra", "v.", "(", ")", "1 U.S. 1", "U.S.", "___", "at", "Id. at", "1 U.S.", "U.S. 1", "1 U.S. at",
              "See", "\u00b6", "&", "\n\n", "1 U.S. 1\n", "\n1 U.S. 1", "Id. at 5", "Bar, supra", "Foo v. Bar", "Foo v.", "v. Bar, 1 U.S. 1"]


@st.composite
def document(draw, hostile=True, multibyte=False, max_frags=8, mutate=True):
    """A citation-dense document. hostile: splice hostile fragments and character-level mutations."""
    if draw(st.integers(0, 39)) == 0:
        return draw(st.sampled_from(DEGENERATE))  # empty, one character, one token, half a citation
    n = draw(st.integers(1, max_frags))
    out = []
    if draw(st.integers(0, 7)) == 0:
        # documents do not always begin with a word
        out.append(draw(st.sampled_from([" ", "\n", "\t", "  ", "\n\n", "(", ""])))
        if draw(st.booleans()):
            # ... and an excerpt may start in the middle of a caption
            out.append(f"{draw(st.sampled_from(['v.', 'v']))} {draw(_name)}, {draw(full())}")
            out.append(draw(st.sampled_from(SEPARATORS)))
    for _ in range(n):
        out.append(draw(fragment(hostile=hostile, multibyte=multibyte)))
        out.append(draw(st.sampled_from(SEPARATORS)))
    if draw(st.integers(0, 5)) == 0:
        out.pop()  # no separator after the last fragment: the document ends exactly where its last token ends
    s = "".join(out)
    if mutate and s and draw(st.integers(0, 9)) < 4:
        alphabet = PUNCT + (HOSTILE if hostile else []) + (MULTIBYTE if multibyte else [])
        for _ in range(draw(st.integers(1, 3))):
            i = draw(st.integers(0, len(s) - 1))
            op = draw(st.integers(0, 15))
            if op > 12:
                # spacing noise next to punctuation (OCR, justified type): a blank before / after / missing after one of
                # the punctuation marks that structure a citation
                marks = [j for j, ch in enumerate(s) if ch in ",();.:[]"]
                if marks:
                    j = marks[draw(st.integers(0, len(marks) - 1))]
                    how = draw(st.integers(0, 2))
                    if how == 0:
                        s = s[:j] + " " + s[j:]
                    elif how == 1:
                        s = s[:j + 1] + " " + s[j + 1:]
                    elif s[j + 1:j + 2] == " ":
                        s = s[:j + 1] + s[j + 2:]
            elif op < 3:
                s = s[:i] + s[i + 1:]
            elif op < 7:
                s = s[:i] + draw(st.sampled_from(alphabet)) + s[i:]
            elif op < 9:
                s = s[:i] + s[i:i + 5] + s[i:]
            elif op < 11:
                # replace the next space (if any) by a whitespace / bracket variant
                j = s.find(" ", i)
                if j >= 0:
                    s = s[:j] + draw(st.sampled_from(WS_VARIANTS)) + s[j + 1:]
            else:
                # typographic variants of ASCII punctuation (curly apostrophes and quotes, en dash), everywhere
                a, b = draw(st.sampled_from([("'", "’"), ("'", "ʼ"), ('"', "”"), ("-", "–"), ("'", "‘")]))
                s = s.replace(a, b)
            if not s:
                break
    return s


def text_case(**kw):
    return document(**kw).map(lambda t: {"text": t})
