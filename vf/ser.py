"""Canonical serialisation of an extraction result (used to compare results across calls, processes, threads)."""
import json


def _ed(e):
    return [e.short_name, e.reporter.short_name, e.reporter.source, str(e.start), str(e.end)]


def ser_citation(c):
    from eyecite.models import CaseCitation, IdCitation, ResourceCitation, UnknownCitation

    d = {
        "class": type(c).__name__,
        "span": list(c.span()),
        "full_span": list(c.full_span()),
        "pin_span": list(c.span_with_pincite()),
        "matched": c.matched_text(),
        "groups": sorted((k, str(v)) for k, v in c.groups.items()),
        "metadata": sorted((k, str(v)) for k, v in c.metadata.__dict__.items()),
    }
    if isinstance(c, ResourceCitation):
        d["exact_editions"] = [_ed(e) for e in c.exact_editions]
        d["variation_editions"] = [_ed(e) for e in c.variation_editions]
        d["edition_guess"] = _ed(c.edition_guess) if c.edition_guess else None
        d["year"] = c.year
        d["corrected"] = c.corrected_citation()
    by_identity = isinstance(c, (IdCitation, UnknownCitation)) or ("page" in c.groups and c.groups["page"] is None and isinstance(c, ResourceCitation))
    if not by_identity:
        try:
            d["hash"] = hash(c)
        except Exception as e:  # noqa: BLE001
            d["hash"] = f"raises {type(e).__name__}"
    return d


def ser(cites):
    return json.dumps([ser_citation(c) for c in cites], ensure_ascii=False, sort_keys=True)
