"""Thin wrappers around the code under test shared by several properties."""
from vf import tk
from vf.core import Raised, call


def extract(case, **extra):
    """Run get_citations for a text/markup case. Returns (citations | Raised, text the offsets refer to)."""
    from eyecite import clean_text, get_citations

    toks = tk.get((case.get("tokenizer", "ac"),))
    tokenizer = toks[case.get("tokenizer", "ac")]
    kw = dict(extra)
    if case.get("remove_ambiguous"):
        kw["remove_ambiguous"] = True
    if "markup" in case:
        cleaned = call(clean_text, case["markup"], case["steps"])
        if isinstance(cleaned, Raised):
            return cleaned, None
        cites = call(get_citations, markup_text=case["markup"], clean_steps=list(case["steps"]), tokenizer=tokenizer, **kw)
        return cites, cleaned
    text = case["text"]
    cites = call(get_citations, text, tokenizer=tokenizer, **kw)
    return cites, text


def kind(c):
    return type(c).__name__
