import random, collections, sys, re, logging, traceback
logging.disable(logging.CRITICAL)
from lxml import etree
from eyecite import annotate_citations
r=random.Random(int(sys.argv[1])); N=int(sys.argv[2])
B=collections.Counter(); EX={}
def rec(k,t):
    B[k]+=1
    if k not in EX or len(repr(t))<len(repr(EX[k])): EX[k]=t
TXT="ABCDEFGH 0123456789.,;:§U.S"
STYLE=["i","em","b"]; BLOCK=["p","div","span","blockquote"]
def tree(depth):
    # returns list of nodes: str or (tag, children)
    out=[]
    for _ in range(r.randint(1,4)):
        k=r.random()
        if k<0.55 or depth>=3: out.append("".join(r.choice(TXT) for _ in range(r.randint(1,8))))
        elif k<0.85: out.append((r.choice(STYLE), tree(depth+1)))
        else: out.append((r.choice(BLOCK), tree(depth+1)))
    return out
def ser(nodes):
    s=""; t=""
    for n in nodes:
        if isinstance(n,str): s+=n; t+=n
        else:
            a,b=ser(n[1]); s+=f"<{n[0]}>"+a+f"</{n[0]}>"; t+=b
    return s,t
nontriv=0
for it in range(N):
    src,plain=ser(tree(0))
    k=r.randint(1,4); anns=[]
    for j in range(k):
        a=r.randint(0,len(plain)); b=r.randint(a,min(len(plain),a+12))
        anns.append(((a,b),f'<a id="{j}">',"</a>"))
    for mode in ("skip","wrap"):
        try: out=annotate_citations(plain, anns, source_text=src, unbalanced_tags=mode)
        except Exception as e: rec(f"raise {mode} {type(e).__name__}",(src,anns)); continue
        try: root=etree.fromstring(f"<div>{out}</div>")
        except etree.XMLSyntaxError as e: rec(f"C11 illformed {mode}",(src,[a[0] for a in anns],out)); continue
        if "".join(root.itertext())!=plain: rec(f"C11 text changed {mode}",(src,[a[0] for a in anns],out))
        if mode=="wrap":
            # every non-empty, non-covered annotation present
            last=0
            for (a,b),bf,af in sorted(anns):
                if a<last: a=last
                if a>=b: 
                    if a>b or (a==b and a<last): continue
                if bf not in out and b>a: rec("C11 wrap missing",(src,[x[0] for x in anns],out))
                last=max(last,b)
print(N)
for k,v in sorted(B.items()): print(v,k,repr(EX[k]))
