import random, collections, sys, re, logging, traceback, html as H
logging.disable(logging.CRITICAL)
from eyecite import get_citations, clean_text
from eyecite.models import *
from eyecite.utils import is_valid_name
r=random.Random(int(sys.argv[1])); N=int(sys.argv[2])
B=collections.Counter(); EX={}
def rec(k,t):
    B[k]+=1
    if k not in EX or len(repr(t))<len(repr(EX[k])): EX[k]=t
SYL=["ka","lo","mi","ren","tov","bar","zen","qua","dri","fel","gor","hup","jin","vas","wim","yor","plu","sha","cre","bo"]
def name(used):
    while True:
        n="".join(r.choice(SYL) for _ in range(r.randint(2,3))).capitalize()
        if all(n not in u and u not in n for u in used) and len(n)>3: used.add(n); return n
REPS=["U.S.","F.2d","F.3d","S. Ct.","A.2d","N.E.2d","U. S."]
FILL=["The court considered the matter at length.","That reasoning is persuasive.","We disagree with the dissent &amp; concurrence.","Nothing in the record suggests otherwise."]
def it(nm, tail=""):
    tag=r.choice(["i","em"]); sp=r.choice([""," "]); 
    return f"<{tag}>{sp}{nm}{tail}</{tag}>"
def key(c): return (type(c).__name__, c.span(), c.full_span(), c.span_with_pincite(), tuple(sorted((k,str(v)) for k,v in c.groups.items())), tuple(sorted((k,str(v)) for k,v in c.metadata.__dict__.items())))
nref=0; nmk=0
for n_ in range(N):
    used=set(); k=r.randint(1,3); cases=[dict(pl=name(used),df=name(used),rep=r.choice(REPS),vol=r.randint(1,500),page=r.randint(1,900),year=r.randint(1950,2020)) for _ in range(k)]
    cited=[]; parts=[]
    for j in range(r.randint(1,7)):
        kind=r.choice(["full","full","mention","mention","ref","id","short","supra","fill"])
        if kind=="full" or not cited:
            i=r.randrange(k); c=cases[i]
            style=r.random()
            if style<0.4: nm=f"{it(c['pl']+' v. '+c['df'], r.choice(['',',',', ']))}"
            elif style<0.7: nm=f"{it(c['pl'])} v. {it(c['df'], r.choice(['',',']))}"
            else: nm=f"{c['pl']} v. {c['df']},"
            if not nm.rstrip().endswith((',','>')): nm+=","
            s=f"{nm} {c['vol']} {r.choice([c['rep'], '<i>'+c['rep']+'</i>'])} {c['page']} ({c['year']})."
            if i not in cited: cited.append(i)
        elif kind=="fill": s=r.choice(FILL)
        else:
            i=r.choice(cited); c=cases[i]; nm=r.choice([c['pl'],c['df']]); pin=c['page']+r.randint(0,50)
            if kind=="mention": s=f"In {it(nm, r.choice(['',',','.',', ']))} the court {r.choice(['held','agreed','said'])} so."
            elif kind=="ref": s=f"See {r.choice([nm, it(nm)])} at {pin}."
            elif kind=="id": s=f"{it('Id.')} at {pin}."
            elif kind=="short": s=f"{it(nm, ',')} {c['vol']} {c['rep']}, at {pin}."
            else: s=f"{it(nm+', supra')}, at {pin}."
        parts.append(s)
    m="".join(f"<p>{p}</p>"+r.choice(["","\n"," "]) if r.random()<0.3 else p+" " for p in parts)
    steps=r.choice([["html"],["html","all_whitespace"],["html","inline_whitespace"],["all_whitespace","html"]])
    try:
        plain=clean_text(m,steps); a=get_citations(markup_text=m, clean_steps=steps); b=get_citations(plain)
    except Exception as e:
        tb=traceback.extract_tb(e.__traceback__)[-1]; rec(f"raise {type(e).__name__} {tb.name}:{tb.lineno}",(m,steps)); continue
    an=[key(c) for c in a if not isinstance(c,ReferenceCitation)]; bn=[key(c) for c in b if not isinstance(c,ReferenceCitation)]
    if an!=bn: rec("C19 nonref differ",(m,steps,[x for x in an if x not in bn][:1],[x for x in bn if x not in an][:1]))
    for lst,mode in ((a,'markup'),(b,'plain')):
        for c in lst:
            if not isinstance(c,ReferenceCitation): continue
            nref+=1; nmk+= mode=='markup'
            s0,s1=c.span(); f0,f1=c.full_span()
            if not (0<=f0<=s0<=s1<=f1<=len(plain)): rec(f"C19 ref offsets {mode}",(m,steps,c.span(),c.full_span())); continue
            names=[(k_,getattr(c.metadata,k_)) for k_ in ReferenceCitation.name_fields if getattr(c.metadata,k_,None)]
            ok=False
            for k_,v in names:
                if not is_valid_name(v): continue
                if re.sub(r"\s+"," ",v.strip()) not in re.sub(r"\s+"," ",plain[s0:s1]): continue
                for d in lst:
                    if isinstance(d,FullCaseCitation) and getattr(d.metadata,k_,None)==v and d.span()[1]<=s0: ok=True
            if not ok: rec(f"C19 ref unfounded {mode}",(m,steps,c.matched_text(),c.span(),names,plain[s0:s1]))
print(N,nref,nmk)
for k_,v in sorted(B.items()): print(v,k_,repr(EX[k_])[:900])
