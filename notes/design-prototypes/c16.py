import collections, time, logging
logging.disable(logging.CRITICAL)
from reporters_db import REPORTERS
from eyecite import get_citations
from eyecite.models import *
# cand(V): editions named V (exact) else editions having V as variation
exact=collections.defaultdict(set); var=collections.defaultdict(set); plain_ok=set()
for k, cl in REPORTERS.items():
    for s in cl:
        for en, ed in s['editions'].items():
            tm = ed.get('regexes') or ['$full_cite']
            key=(k,s['name'],en)
            exact[en].add(key)
            if '$full_cite' in tm: plain_ok.add(key)
            for v,t in s['variations'].items():
                if t==en: var[v].add(key)
n=0; B=collections.Counter(); EX={}
t0=time.time()
for V,keys in var.items():
    cand = exact.get(V) or keys
    if len(cand)!=1: B['skip ambiguous']+=1; continue
    (k,name,en),=cand
    if (k,name,en) not in plain_ok: B['skip custom']+=1; continue
    if V in exact: B['skip V is exact name']+=1; continue
    a=get_citations(f"Foo v. Bar, 12 {V} 345, 350 (1999) (holding x).")
    b=get_citations(f"See 12 {en} 345.")
    n+=1
    if len(a)!=1 or len(b)!=1: B['count']+=1; EX.setdefault('count',(V,en,a,b)); continue
    a,b=a[0],b[0]
    if not (a==b and hash(a)==hash(b) and Resource(a)==Resource(b)): B['not equal']+=1; EX.setdefault('ne',(V,en,a.corrected_reporter(),b.corrected_reporter(), [e.short_name for e in a.exact_editions], [e.short_name for e in a.variation_editions])); continue
    cc=a.corrected_citation()
    c=get_citations(cc)
    if len(c)!=1 or c[0]!=a or c[0].corrected_citation()!=cc: B['roundtrip']+=1; EX.setdefault('rt',(V,en,cc,c))
print(n,time.time()-t0,B); 
for k,v in EX.items(): print(k,v)
