import random, collections, traceback, sys, logging, time, datetime
logging.disable(logging.CRITICAL)
from gen import *
from eyecite import get_citations, resolve_citations
from eyecite.models import *
from eyecite.helpers import filter_citations
from eyecite.find import extract_reference_citations
from eyecite.tokenizers import Tokenizer, AhocorasickTokenizer, HyperscanTokenizer, default_tokenizer
N=int(sys.argv[1]); seed=int(sys.argv[2]); hostile = (len(sys.argv)<4 or sys.argv[3]!='nohost')
r=random.Random(seed)
B=collections.Counter(); EX={}
def rec(k,t):
    B[k]+=1
    if k not in EX or len(t)<len(EX[k]): EX[k]=t
ref_tk=Tokenizer(); ac=default_tokenizer; hs=HyperscanTokenizer(cache_dir='/tmp/x/hc')
TF=['pin_cite','year','plaintiff','defendant','antecedent_guess','extra','publisher','month','day','volume']
def tokkey(t): return (type(t).__name__, t.start, t.end, str(t), tuple(sorted((k,v) for k,v in t.groups.items())), tuple(sorted(e.short_name for e in getattr(t,'exact_editions',()))), tuple(sorted(e.short_name for e in getattr(t,'variation_editions',()))), getattr(t,'short',None))
t0=time.time(); ncit=0
import datetime as _dt; THIS=_dt.date.today().year
for i in range(N):
    t=doc(r, hostile)
    try: cs=get_citations(t)
    except Exception as e:
        tb=traceback.extract_tb(e.__traceback__)[-1]; rec(f"C04 get {type(e).__name__} {tb.name}:{tb.lineno}",t); continue
    ncit+=len(cs)
    # C12 x 3
    streams={}
    for nm,tk in (('ref',ref_tk),('ac',ac),('hs',hs)):
        try: toks,cts=tk.tokenize(t)
        except Exception as e:
            tb=traceback.extract_tb(e.__traceback__)[-1]; rec(f"C04 tok {nm} {type(e).__name__} {tb.name}:{tb.lineno}",t); continue
        if "".join(str(x) for x in toks)!=t: rec("C12 concat "+nm,t)
        last=0
        for idx,tok in cts:
            if toks[idx] is not tok: rec("C12 index "+nm,t)
            if t[tok.start:tok.end]!=str(tok): rec("C12 offsets "+nm,t)
            if tok.start<last: rec("C12 overlap "+nm,t)
            last=tok.end
        streams[nm]=[x if isinstance(x,str) else tokkey(x) for x in toks]
    if 'ref' in streams and 'ac' in streams and streams['ref']!=streams['ac']: rec("C13 diff",t)
    # C14 candidates
    if t.isascii() or True:
        try:
            a=collections.Counter(tokkey(x) for x in ref_tk.extract_tokens(t)); b=collections.Counter(tokkey(x) for x in hs.extract_tokens(t))
            if set(a)-set(b): rec("C14 missing"+(" ascii" if t.isascii() else " nonascii"),t)
            if set(b)-set(a): rec("C14 extra"+(" ascii" if t.isascii() else " nonascii"),t)
        except Exception as e: pass
    # C17
    groups=collections.defaultdict(list)
    for c in cs: groups[c.full_span()[0]].append(c)
    for c in cs:
        f0,f1=c.full_span(); g=groups[f0]; j0=f0; j1=max(x.full_span()[1] for x in g)
        for f in TF:
            v=getattr(c.metadata,f,None)
            if v and v not in t[j0:j1]: rec(f"C17 {f} {type(c).__name__}",t)
        if isinstance(c,FullCitation) and c.metadata.parenthetical and c.metadata.parenthetical not in t[j0:j1]: rec(f"C17 paren {type(c).__name__}",t)
    # C18
    for c in cs:
        if isinstance(c,ResourceCitation):
            if c.year is not None:
                if not (1600<=c.year<=THIS+1): rec("C18 year-range",t)
                if not c.metadata.year or str(c.year)!=c.metadata.year[:4]: rec("C18 year-mismatch",t)
            cand=c.exact_editions or c.variation_editions
            if c.edition_guess is not None and c.edition_guess not in cand: rec("C18 guess-not-cand",t)
            if len(cand)==1 and c.edition_guess is None: rec("C18 single-not-guessed",t)
            own = not any(isinstance(d,FullCaseCitation) and d is not c and d.full_span()[0]==c.full_span()[0] and d.span()[0]<c.span()[0] for d in cs)
            if len(cand)>1 and c.edition_guess is not None and own:
                if c.year is None: rec("C18 guess-without-year",t)
                else:
                    ok=[e for e in cand if (e.start is None or e.start.year<=c.year) and (e.end is None or e.end.year>=c.year) and c.year<=THIS]
                    if ok!=[c.edition_guess]: rec("C18 guess-not-unique",t)
            if len(cand)>1 and c.edition_guess is None and own and c.year is not None:
                ok=[e for e in cand if (e.start is None or e.start.year<=c.year) and (e.end is None or e.end.year>=c.year) and c.year<=THIS]
                if len(ok)==1: rec("C18 unique-not-guessed",t)
    ra=get_citations(t, remove_ambiguous=True)
    exp=[c for c in cs if not isinstance(c,ResourceCitation) or c.edition_guess]
    if [(type(c),c.span()) for c in ra]!=[(type(c),c.span()) for c in exp]: rec("C18 remove_ambiguous",t)
    # C03
    sp=[c.span() for c in cs]
    if sp!=sorted(sp): rec("C03 order",t)
    for a,b in zip(sp,sp[1:]):
        if a[1]>b[0]: rec("C03 overlap",t)
    if len(set(sp))!=len(sp): rec("C03 dup",t)
    # merge flow
    fulls=[c for c in cs if isinstance(c,FullCaseCitation)]
    if fulls:
        doc_=Document(plain_text=t, markup_text="")
        extra=[]
        for c in fulls:
            if c.metadata.defendant and r.random()<0.5: c.metadata.resolved_case_name_short=c.metadata.defendant.split()[0]
            try: extra+=extract_reference_citations(c, doc_)
            except Exception as e: rec(f"C04 extractref {type(e).__name__}",t)
        m1=filter_citations(cs+extra); m2=filter_citations(m1)
        if [id(x) for x in m1]!=[id(x) for x in m2]: rec("C03 not idempotent",t)
        nonref=[c for c in cs if not isinstance(c,ReferenceCitation)]
        if [c for c in m1 if not isinstance(c,ReferenceCitation)]!=nonref and set(map(id,nonref))-set(map(id,m1)): rec("C03 merge lost nonref",t)
        sp=[c.span() for c in m1]
        if sp!=sorted(sp): rec("C03 merge order",t)
        for a,b in zip(sp,sp[1:]):
            if a[1]>b[0]: rec("C03 merge overlap",t)
print(N, ncit, time.time()-t0)
for k,v in sorted(B.items()): print(v,k,repr(EX[k]))
