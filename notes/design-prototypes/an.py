import random, collections, traceback, sys, re, logging
logging.disable(logging.CRITICAL)
from eyecite import annotate_citations
from eyecite.annotate import SpanUpdater
from bisect import bisect_left, bisect_right
r=random.Random(int(sys.argv[1])); N=int(sys.argv[2])
B=collections.Counter(); EX={}
def rec(k,t):
    B[k]+=1
    if k not in EX or len(repr(t))<len(repr(EX[k])): EX[k]=t
ALPH="ab c.,1<>/ie\n&;"
TAGS=["<i>","</i>","<em>","</em>","<b>","</b>","<p>","</p>"," ","  ","\n","<br/>"]
def rtext(n): return "".join(r.choice(ALPH) for _ in range(r.randint(0,n)))
for it in range(N):
    plain=rtext(25)
    k=r.random()
    if k<0.3: src=None
    elif k<0.7:
        # insert tags/ws
        s=list(plain); 
        for _ in range(r.randint(0,5)):
            i=r.randint(0,len(s)); s.insert(i, r.choice(TAGS))
        src="".join(s)
    else:
        s=list(plain)
        for _ in range(r.randint(0,4)):
            if not s: break
            i=r.randrange(len(s)); op=r.random()
            if op<.3: del s[i]
            elif op<.6: s[i]=r.choice(ALPH)
            else: s.insert(i,r.choice(TAGS+list(ALPH)))
        src="".join(s)
    anns=[]
    for j in range(r.randint(0,4)):
        a=r.randint(0,len(plain)); b=r.randint(a,len(plain))
        anns.append(((a,b),f"{j}",f"{j}"))
    r.shuffle(anns)
    target = src if src else plain
    for mode in ("unchecked","skip","wrap"):
        for dmp in (True,False):
            try: out=annotate_citations(plain, anns, source_text=src, unbalanced_tags=mode, use_dmp=dmp)
            except Exception as e:
                tb=traceback.extract_tb(e.__traceback__)[-1]; rec(f"C04 annotate {mode} {type(e).__name__} {tb.name}:{tb.lineno}",(plain,anns,src)); continue
            stripped=re.sub("[]\\d[]","",out)
            if stripped!=target: rec(f"C09 {mode} dmp={dmp} src={'none' if src is None else 'yes'}",(plain,[a[0] for a in anns],src,out))
    if src and src!=plain:
        for dmp in (True,False):
            u=SpanUpdater(plain,src,use_dmp=dmp)
            prev_s=prev_e=0
            for o in range(len(plain)+1):
                try: s_=u.update(o,bisect_right); e_=u.update(o,bisect_left)
                except Exception as e: rec(f"C10 update {type(e).__name__} dmp={dmp}",(plain,src,o)); break
                if not (0<=s_<=len(src) and 0<=e_<=len(src)): rec(f"C10 range dmp={dmp}",(plain,src,o,s_,e_))
                if s_<prev_s or e_<prev_e: rec(f"C10 nonmonotone dmp={dmp}",(plain,src,o))
                if e_>s_: rec(f"C10 end>start same offset dmp={dmp}",(plain,src,o,s_,e_))
                prev_s,prev_e=s_,e_
print(N)
for k,v in sorted(B.items()): print(v,k,repr(EX[k]))
