import time, re, collections, warnings, sys
from hypothesis import strategies as st, given, settings, HealthCheck, seed, Phase
from eyecite.tokenizers import EXTRACTORS, AhocorasickTokenizer, default_tokenizer
ac=default_tokenizer
exs=[e for e in EXTRACTORS if e.strings]
print(len(exs), len(EXTRACTORS)-len(exs))
import random
r=random.Random(1); sample=r.sample(exs,150)+exs[-4:]
t0=time.time(); miss=collections.Counter(); n=0; nomatch=0; bad=[]
for e in sample:
    strat=st.from_regex(re.compile(e.regex, e.flags), fullmatch=True)
    got=[]
    @seed(1)
    @settings(max_examples=15, database=None, deadline=None, suppress_health_check=list(HealthCheck), phases=[Phase.generate])
    @given(strat)
    def t(s): got.append(s)
    try: t()
    except Exception as ex: bad.append((e.regex[:60], repr(ex)[:100])); continue
    for s in got:
        n+=1
        if not e.compiled_regex.search(s): nomatch+=1; continue
        if e not in ac.get_extractors(s): miss[e.regex[:50]]+=1; print("MISS", repr(s)[:80], e.strings[:3])
print(n, nomatch, time.time()-t0, len(bad), bad[:3]); print(miss.most_common(5))
