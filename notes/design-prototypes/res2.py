import time, collections, itertools, logging, sys, re
logging.disable(logging.CRITICAL)
exec(open('res.py').read().split("letters=list(pool)")[0])
letters=list(pool)
CASE={'FA':'A','FA2':'A','FB':'B','FC':'C'}
NAMES={'A':{'Alpha','Beta'},'B':{'Gamma','Delta'},'C':{'Alpha','Omega'},'P':{'Sigma','Tau'}}
RV={'A':('U.S.','10'),'B':('U.S.','10'),'C':('F.2d','30'),'P':('U.S.','585')}
PAGE={'A':100,'B':200,'C':300,'P':None,'LAW':'nopage','JRN':1}
SHORT={'S_A':('U.S.','10','Beta'),'S_amb':('U.S.','10',None),'S_C':('F.2d','30',None),'S_for':('F.3d','77',None)}
SUPRA={'SU_B':'Delta','SU_amb':'Alpha','SU_unk':'Zeta'}
IDPIN={'ID':None,'ID_ok':101,'ID_far':999,'ID_bad':'bad'}
def model(seq):
    fulls=[]  # (reskey, casekey or None)
    groups=collections.OrderedDict(); last=None
    for i,l in enumerate(seq):
        res=None
        if l in CASE: res=CASE[l]; fulls.append((res,CASE[l]))
        elif l=='FP': res=('P',i); fulls.append((res,'P'))
        elif l in ('LAW','JRN'): res=l; fulls.append((res,None))
        elif l in SHORT:
            rep,vol,ante=SHORT[l]
            cands=[(r,c) for r,c in fulls if c and RV[c]==(rep,vol)]
            rs=[]; [rs.append(r) for r,c in cands if r not in rs]
            if len(rs)==1: res=rs[0]
            elif ante:
                m=[]; [m.append(r) for r,c in cands if ante in NAMES[c] and r not in m]
                res=m[0] if len(m)==1 else None
        elif l in SUPRA:
            m=[]; [m.append(r) for r,c in fulls if c and SUPRA[l] in NAMES[c] and r not in m]
            res=m[0] if len(m)==1 else None
        elif l=='REF_B':
            m=[]; [m.append(r) for r,c in fulls if c and 'Gamma' in NAMES[c] and r not in m]
            res=m[0] if len(m)==1 else None
        elif l in IDPIN:
            if last is not None:
                first_letter=seq[groups[last][0]]
                ck = CASE.get(first_letter) or ('P' if first_letter=='FP' else first_letter)
                page=PAGE[ck]; pin=IDPIN[l]
                if page is None: res=None
                elif pin is None: res=last
                elif page=='nopage': res=last
                elif pin=='bad': res=None
                elif page<=pin<=page+150: res=last
                else: res=None
        last=res
        if res is not None: groups.setdefault(res,[]).append(i)
    return list(groups.values())
L=int(sys.argv[1]); bad=0; n=0; t0=time.time()
for seq in itertools.product(letters, repeat=L):
    cits=[pool[l][i] for i,l in enumerate(seq)]
    res=resolve_citations(cits)
    idx={id(c):i for i,c in enumerate(cits)}
    got=[[idx[id(c)] for c in v] for v in res.values()]
    exp=model(seq); n+=1
    if sorted(got)!=sorted(exp):
        bad+=1
        if bad<=5: print(seq, got, exp)
print(n,bad,time.time()-t0)
