import random, collections, sys, re, logging, traceback, html as H
logging.disable(logging.CRITICAL)
from gen import *
from eyecite import get_citations, clean_text
from eyecite.models import *
from eyecite.utils import is_valid_name
r=random.Random(int(sys.argv[1])); N=int(sys.argv[2])
B=collections.Counter(); EX={}
def rec(k,t):
    B[k]+=1
    if k not in EX or len(repr(t))<len(repr(EX[k])): EX[k]=t
def markup(r, t):
    # wrap random NAMES occurrences in style tags, with optional trailing punct inside
    out=[]; i=0
    pat=re.compile("|".join(re.escape(n) for n in sorted(NAMES,key=len,reverse=True)))
    for m in pat.finditer(t):
        if r.random()<0.6:
            out.append(H.escape(t[i:m.start()],quote=False)); tag=r.choice(["i","em"])
            j=m.end(); tail=""
            if r.random()<0.5:
                mm=re.match(r"[,.;: ]{1,2}", t[j:]); 
                if mm: tail=mm.group(0); j+=len(tail)
            out.append(f"<{tag}>{r.choice(['',' '])}{H.escape(m.group(0),quote=False)}{tail}</{tag}>"); i=j
    out.append(H.escape(t[i:],quote=False))
    s="".join(out)
    paras=s.split("\n")
    return "".join(f"<p>{p}</p>"+r.choice(["","\n"," "]) for p in paras)
def key(c): return (type(c).__name__, c.span(), c.full_span(), c.span_with_pincite(), tuple(sorted((k,str(v)) for k,v in c.groups.items())), tuple(sorted((k,str(v)) for k,v in c.metadata.__dict__.items())))
nref=0
for it in range(N):
    t=doc(r, hostile=False)
    if not t.strip(): continue
    m=markup(r,t)
    steps=r.choice([["html"],["html","all_whitespace"],["html","inline_whitespace"],["all_whitespace","html"]])
    try:
        plain=clean_text(m,steps)
        a=get_citations(markup_text=m, clean_steps=steps)
        b=get_citations(plain)
    except Exception as e:
        tb=traceback.extract_tb(e.__traceback__)[-1]; rec(f"raise {type(e).__name__} {tb.name}:{tb.lineno}",(m,steps)); continue
    an=[key(c) for c in a if not isinstance(c,ReferenceCitation)]; bn=[key(c) for c in b if not isinstance(c,ReferenceCitation)]
    if an!=bn: rec("C19 nonref differ",(m,steps))
    for lst,mode in ((a,'markup'),(b,'plain')):
        for i,c in enumerate(lst):
            if not isinstance(c,ReferenceCitation): continue
            nref+=1
            s0,s1=c.span(); f0,f1=c.full_span()
            if not (0<=f0<=s0<=s1<=f1<=len(plain)): rec(f"C19 ref offsets {mode}",(m,steps,c.span(),c.full_span())); continue
            names=[(k,getattr(c.metadata,k)) for k in ReferenceCitation.name_fields if getattr(c.metadata,k,None)]
            ok=False
            for k,v in names:
                if not is_valid_name(v): continue
                if re.sub(r"\s+"," ",v.strip()) not in re.sub(r"\s+"," ",plain[s0:s1]): continue
                for d in lst:
                    if isinstance(d,FullCaseCitation) and getattr(d.metadata,k,None)==v and d.span()[1]<=s0: ok=True
            if not ok: rec(f"C19 ref unfounded {mode}",(m,steps,c.matched_text(),names))
print(N,nref)
for k,v in sorted(B.items()): print(v,k,repr(EX[k])[:600])
