import random, collections, sys, html as H
from eyecite.clean import html as clean_html, clean_text
r=random.Random(int(sys.argv[1])); N=int(sys.argv[2])
B=collections.Counter(); EX={}
def rec(k,t):
    B[k]+=1
    if k not in EX or len(repr(t))<len(repr(EX[k])): EX[k]=t
INLINE=["i","em","b","span","a","u","strong"]; BLOCK=["p","div","blockquote","section","h2","li"]; HIDDEN=["script","style"]
CH="abc XYZ 012 .,;§é“”&<>'\"\n\t "
def text(): return "".join(r.choice(CH) for _ in range(r.randint(0,8)))
def inline(d):
    out=[]
    for _ in range(r.randint(1,3)):
        k=r.random()
        if k<0.6 or d>3: out.append(('t',text()))
        elif k<0.9: out.append(('e',r.choice(INLINE),inline(d+1)))
        else: out.append(('h',r.choice(HIDDEN),"".join(r.choice("abc XYZ.;{}=") for _ in range(r.randint(0,6)))))
    return out
def block(d):
    out=[]
    for _ in range(r.randint(1,3)):
        k=r.random()
        if k<0.5 or d>2: out.append(('e',r.choice(["p","h2","li"]),inline(d+1)))
        else: out.append(('e',r.choice(["div","blockquote","section"]),block(d+1)))
    return out
def ser(nodes, vis):
    s=""
    for n in nodes:
        if n[0]=='t':
            s+=H.escape(n[1],quote=False)
            vis.append(n[1])
        elif n[0]=='h': s+=f"<{n[1]}>{n[2]}</{n[1]}>"
        else: s+=f"<{n[1]}>"+ser(n[2],vis)+f"</{n[1]}>"
    return s
def merge(vis, s):
    # adjacent text nodes in serialisation are one DOM text node; recompute by re-walking instead
    return None
for it in range(N):
    tree=block(0); vis=[]; s=ser(tree,vis)
    # expected: DOM text nodes = maximal runs of adjacent 't' siblings (adjacent text pieces merge); compute by walking
    exp=[]
    def walk(nodes):
        buf=""
        for n in nodes:
            if n[0]=='t': buf+=n[1]
            else:
                if buf.strip(): exp.append(buf)
                elif buf and buf.strip()=="" : pass
                buf=""
                if n[0]=='e': walk(n[2])
        if buf.strip(): exp.append(buf)
    walk(tree)
    if not s.strip(): continue
    try: got=clean_html(s)
    except Exception as e: rec(f"raise {type(e).__name__}",s); continue
    if got!=" ".join(exp): rec("C20 html mismatch",(s,got," ".join(exp)))
print(N)
for k,v in sorted(B.items()): print(v,k,repr(EX[k])[:500])
