import random
REPS = ["U.S.","U. S.","S. Ct.","S.Ct.","F.2d","F.3d","F. Supp. 2d","A.2d","A. 2d","Cal.App.4th","Cal.Rptr.3d","N.E.","Wn. App.","Wash.","Johnson","Cranch","Thompson","Cooke","Holmes","Olcott","Chase","Gilmer","Bee","Miles","Ga.","Mass.","P.R.","L.Ed.2d","NY2d","Idaho","P2d","B.R.","Pa. D. & C.5th","MT","Mich.","So.2d","T.C."]
NAMES = ["Foo","Bar","Smith","Jones","Thompson","Cooke","Holmes","Olcott","Chase","Gilmer","Bee","Taney","Deady","United States","State","Bell Atlantic Corp.","Twombly","Nobelman","Am. Sav. Bank","K.F.","Roe","Wade","Inc.","Miles","AT&T","O'Brien","Peña"]
STOPS = ["v.","v","In re","Ex parte","see","See","citing","cert. denied","aff'd","affirmed","remanded","granted","dismissed"]
LAWS = ["Mass. Gen. Laws ch. 1, § 2","42 U.S.C. § 1983","18 U. S. C. §§4241-4243","Fla. Stat. § 120.68 (2007)","Ariz. Rev. Stat. Ann. § 36-3701 et seq. (West 2009)","1 Stat. 2","§99","§ 5","Kan. Stat. Ann. § 21-3516(a)(2) (repealed)"]
JOUR = ["1 Minn. L. Rev. 1","77 Marq. L. Rev. 475 (1993-94)","66 B.U. L. Rev. 71 (1986)","1 Minn. L. Rev. ___"]
WORDS = ["the","court","held","that","and","so","on","at","in","of","a","plan","case","holding","Court","supra","id.","ibid.","note","n.","p."]
PUNCT = [".",",",";",":","(",")","[","]","”","“","'","\"","—","-"," ","  ","\n","\t"," ","§","¶","*","_","___","&"]
HOST = [" "," ","٣","４","\x00","((","))","[","]]","9999999999999999999999","§x","x§","ſ","İ","ı","K"," ","é","ü","‘","’","﻿"]
def num(r): return str(r.choice([1,2,5,12,99,100,123,550,999,1000,2020,12345]))
def page(r): return r.choice([num(r),num(r),num(r),"___","_","xiv","lxiv","12a"])
def pin(r): return r.choice(["", ", "+num(r), ", "+num(r)+"-"+num(r), ", at "+num(r), " at "+num(r), ", "+num(r)+" n. 4", ", ¶ "+num(r), ", *"+num(r), ", "+num(r)+", "+num(r)])
def year(r): return r.choice(["1999","2005","1887","1600","1599","2100","2027","2028","2026","0000","1993-94","19999"])
def court(r): return r.choice(["","4th Cir. ","Pa.Super. ","D. Kan. ","SC ","Bankr.D. Utah ","1st Cir.","N.D. Cal. "])
def paren(r): return r.choice([""," (overruling foo)"," (discussing abc (Holmes, J., concurring))"," (quoting 2 F.2d 2, 3)"," (same) (ignore this)"," ("," )"])
def full(r):
    s=f"{num(r)} {r.choice(REPS)}{r.choice([' ',', ',' '])}{page(r)}{pin(r)}"
    k=r.random()
    if k<0.5: s+=f" ({court(r)}{year(r)}){paren(r)}"
    elif k<0.6: s+=f" [{court(r)}{year(r)}]"
    return s
def named(r):
    k=r.random()
    pre = f"{r.choice(NAMES)} {r.choice(['v.','v'])} {r.choice(NAMES)}" if k<0.6 else (f"{r.choice(['In re','Ex parte'])} {r.choice(NAMES)}" if k<0.8 else r.choice(NAMES))
    if r.random()<0.15: pre += f" ({year(r)})"
    sep = r.choice([", "," ",", ",",  "])
    s = pre+sep+full(r)
    if r.random()<0.3: s += ", "+full(r)
    return s
def short(r): return f"{r.choice(['',r.choice(NAMES)+', ',r.choice(NAMES)+' '])}{num(r)} {r.choice(REPS)}{r.choice([',',''])} at {num(r)}{r.choice(['','-'+num(r),' n. 3'])}{paren(r) if r.random()<.3 else ''}"
def supra(r): return f"{r.choice(NAMES)}, {r.choice(['',num(r)+' '])}supra{r.choice([',','','.',', at '+num(r),' at '+num(r),', at '+num(r)+'-'+num(r)])}"
def idc(r): return f"{r.choice(['Id.','id.','Ibid.','Id.,','ibid.'])}{r.choice([' at '+num(r),'',' at '+num(r)+'-'+num(r),' ¶ '+num(r),' at *'+num(r),', at '+num(r)])}"
def ref(r): return f"{r.choice(NAMES)} at {num(r)}"
def frag(r):
    k=r.random()
    if k<0.25: return named(r)
    if k<0.35: return full(r)
    if k<0.47: return short(r)
    if k<0.55: return supra(r)
    if k<0.65: return idc(r)
    if k<0.70: return ref(r)
    if k<0.76: return r.choice(LAWS)
    if k<0.80: return r.choice(JOUR)
    if k<0.84: return r.choice(STOPS)
    if k<0.94: return " ".join(r.choice(WORDS) for _ in range(r.randint(1,5)))
    return r.choice(HOST)
def doc(r, hostile=True):
    n=r.randint(1,8); out=[]
    for _ in range(n):
        f=frag(r)
        if not hostile and any(h in f for h in HOST): continue
        out.append(f); out.append(r.choice([". ","; ",", "," ",". ",". ","\n"," (",") ",": "," — "]) if (hostile or True) else ". ")
    s="".join(out)
    if hostile and r.random()<0.3 and s:
        # char-level mutation
        for _ in range(r.randint(1,3)):
            i=r.randrange(len(s)); op=r.random()
            if op<0.4: s=s[:i]+s[i+1:]
            elif op<0.8: s=s[:i]+r.choice(PUNCT+HOST)+s[i:]
            else: s=s[:i]+s[i:i+5]+s[i:]
    return s
