import random, collections, sys, logging
logging.disable(logging.CRITICAL)
from eyecite import get_citations, resolve_citations
from eyecite.models import *
r=random.Random(int(sys.argv[1])); N=int(sys.argv[2])
B=collections.Counter(); EX={}
def rec(k,t):
    B[k]+=1
    if k not in EX or len(repr(t))<len(repr(EX[k])): EX[k]=t
SYL=["ka","lo","mi","ren","tov","bar","zen","qua","dri","fel","gor","hup","jin","vas","wim","yor","plu","sha","cre","bo"]
def name(used):
    while True:
        n="".join(r.choice(SYL) for _ in range(r.randint(2,3))).capitalize()
        if all(n not in u and u not in n for u in used) and len(n)>3: used.add(n); return n
REPS=[("U.S.","U.S."),("F.2d","F.2d"),("F.3d","F.3d"),("S. Ct.","S. Ct."),("A.2d","A.2d"),("N.E.2d","N.E.2d"),("U. S.","U.S."),("F. 2d","F.2d")]
FILL=["The court considered the matter at length.","That reasoning is persuasive.","We disagree with the dissent.","Nothing in the record suggests otherwise."]
for it in range(N):
    used=set(); k=r.randint(1,4); cases=[]
    for i in range(k):
        rep,canon=r.choice(REPS); vol=r.choice([10,10,20,30,r.randint(1,500)]); page=r.randint(1,900)
        while any(c['canon']==canon and c['vol']==vol and c['page']==page for c in cases): page=r.randint(1,900)
        cases.append(dict(pl=name(used),df=name(used),rep=rep,canon=canon,vol=vol,page=page,year=r.randint(1950,2020)))
    stmts=[]; cited=[]  # cited: indices of cases cited in full so far
    text=""; expect=[]  # expect entries: (kind, intended case idx or None(expected unresolved), span text)
    last_res=None  # model of last resolution (case idx) 
    n=r.randint(1,8)
    for j in range(n):
        kind=r.choice(["full","full","short","short_ante","supra","id","id_pin","fill","ref"])
        if kind=="full" or not cited:
            i=r.randrange(k); c=cases[i]
            s=f"{r.choice(['See ','','In '])}{c['pl']} v. {c['df']}, {c['vol']} {c['rep']} {c['page']}{r.choice(['',', '+str(c['page']+r.randint(0,20))])} ({c['year']})."
            if i not in cited: cited.append(i)
            expect.append(("full",i)); last_res=i
        elif kind=="fill": s=r.choice(FILL); 
        else:
            i=r.choice(cited); c=cases[i]
            pin=c['page']+r.randint(0,100)
            if kind in("short","short_ante"):
                ante = kind=="short_ante"
                s=f"{(r.choice([c['pl'],c['df']])+', ') if ante else 'And '}{c['vol']} {c['rep']}{r.choice([',',''])} at {pin}."
                same=[x for x in cited if cases[x]['canon']==c['canon'] and cases[x]['vol']==c['vol']]
                unamb = len(same)==1 or ante
                expect.append(("short", i if unamb else None)); last_res = i if unamb else None
            elif kind=="supra":
                s=f"{r.choice([c['pl'],c['df']])}, supra, at {pin}."
                expect.append(("supra", i)); last_res=i
            elif kind=="ref":
                s=f"In {r.choice([c['pl'],c['df']])} at {pin} the court agreed."
                expect.append(("ref", i)); last_res=i
            else:
                if kind=="id": s="Id."; ok = last_res is not None
                else:
                    good=r.random()<0.6
                    base = cases[last_res]['page'] if last_res is not None else 100
                    p = base + (r.randint(0,150) if good else r.choice([-1 if base>1 else 151, 151, 400]))
                    if p<1: p=base+151
                    s=f"Id. at {p}."; ok = last_res is not None and base<=p<=base+150
                expect.append(("id", last_res if ok else None)); last_res = last_res if ok else None
        text+=s+" "
    cs=get_citations(text)
    kinds={"full":FullCaseCitation,"short":ShortCaseCitation,"supra":SupraCitation,"id":IdCitation,"ref":ReferenceCitation}
    if len(cs)!=len(expect) or any(not isinstance(c,kinds[e[0]]) for c,e in zip(cs,expect)):
        rec("extraction shape", (text,[type(c).__name__ for c in cs],[e[0] for e in expect])); continue
    res=resolve_citations(cs)
    owner={}
    for rsrc,lst in res.items():
        for c in lst: owner[id(c)]=rsrc
    # one resource per distinct cited case
    case_res={}
    for c,e in zip(cs,expect):
        if e[0]=="full":
            rs=owner.get(id(c))
            if rs is None: rec("full unresolved",text); continue
            if e[1] in case_res and case_res[e[1]]!=rs: rec("C05 two resources for one case",text)
            case_res.setdefault(e[1],rs)
    if len(set(map(id,case_res.values())))!=len(case_res) : rec("C05 shared resource",text)
    for c,e in zip(cs,expect):
        if e[0]=="full": continue
        got=owner.get(id(c))
        if e[1] is None:
            if e[0]=="id" and got is not None: rec("C05 id should be left out",text)
        else:
            if got is None: rec(f"C05 {e[0]} unresolved",text)
            elif got!=case_res[e[1]]: rec(f"C05 {e[0]} wrong case",text)
print(N)
for k,v in sorted(B.items()): print(v,k,repr(EX[k])[:700])
