import collections, time, re
from reporters_db import REPORTERS, LAWS, JOURNALS
from eyecite.tokenizers import EXTRACTORS, default_tokenizer
from eyecite.models import CitationToken
strings=set()
for k, cl in REPORTERS.items():
    for s in cl:
        strings.update(s['editions']); strings.update(s['variations'])
for D in (LAWS,JOURNALS):
    for k,cl in D.items():
        for s in cl: strings.add(k); strings.update(s.get('variations',[]))
print(len(strings))
t0=time.time(); amb={}
for R in sorted(strings):
  for core in (f"12 {R} 345", f"12 {R} at 345"):
    text=core
    readings=collections.defaultdict(list)
    for e in default_tokenizer.get_extractors(text):
        if e.constructor.__self__ is not CitationToken: 
            continue
        for m in e.compiled_regex.finditer(text):
            if m.span(1)==(0,len(core)):
                g=tuple(sorted((k,v) for k,v in m.groupdict().items() if v is not None))
                readings[(g,e.extra['short'])].append(e)
    if len(readings)>1: amb[core]=list(readings)
print(time.time()-t0, len(amb))
for k,v in list(amb.items())[:40]: print(k, v)
