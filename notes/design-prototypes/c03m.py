import random, collections, sys, logging, re
logging.disable(logging.CRITICAL)
from gen import *
from eyecite import get_citations
from eyecite.models import *
from eyecite.helpers import filter_citations
from eyecite.find import extract_reference_citations
r=random.Random(int(sys.argv[1])); N=int(sys.argv[2])
B=collections.Counter(); EX={}
def rec(k,t):
    B[k]+=1
    if k not in EX or len(repr(t))<len(repr(EX[k])): EX[k]=t
nm=0; added=0
for it in range(N):
    t=doc(r, hostile=False)
    w0=re.findall(r"[A-Z][\w.&'-]*(?: [A-Z][\w.&'-]*)?", t)
    planted=[]
    for _ in range(r.randint(1,4)):
        if w0:
            n_=r.choice(w0); planted.append(n_)
            t+=r.choice([" As "," In "," See ","; "," ("])+n_+" at "+num(r)+r.choice([" held. ",", ",") ","."," "])
            if r.random()<0.3: t+=short(r)+". "
    base=get_citations(t); cur=list(base)
    fulls=[c for c in cur if isinstance(c,FullCaseCitation)]
    if not fulls: continue
    words=re.findall(r"[A-Z][\w.&'-]*(?: [A-Z][\w.&'-]*)?", t)
    d=Document(plain_text=t, markup_text="")
    hist=[]
    for step in range(r.randint(1,5)):
        if r.random()<0.25:
            nxt=filter_citations(cur); hist.append('refilter')
            if [id(x) for x in nxt]!=[id(x) for x in cur]: rec("C03 refilter changed", (t,hist))
            cur=nxt; continue
        c=r.choice(fulls); field=r.choice(["resolved_case_name","resolved_case_name_short"])
        name=r.choice(planted) if planted and r.random()<0.7 else r.choice(words) if words and r.random()<0.5 else (c.metadata.defendant or c.metadata.plaintiff or "Foo")
        setattr(c.metadata, field, name); hist.append((c.matched_text(),field,name))
        try: refs=extract_reference_citations(c,d)
        except Exception as e: rec(f"raise {type(e).__name__}",(t,hist)); continue
        before=len(cur); cur=filter_citations(cur+refs); nm+=1; added+= len(cur)>before
        sp=[x.span() for x in cur]
        if sp!=sorted(sp): rec("C03 merge order",(t,hist))
        if any(a[1]>b[0] for a,b in zip(sorted(sp),sorted(sp)[1:])): rec("C03 merge overlap",(t,hist,[(type(x).__name__,x.span()) for x in cur]))
        ids=set(map(id,cur))
        lost=[x for x in base if not isinstance(x,ReferenceCitation) and id(x) not in ids]
        if lost: rec("C03 merge lost nonref",(t,hist,[(type(x).__name__,x.matched_text()) for x in lost]))
        again=filter_citations(cur)
        if [id(x) for x in again]!=[id(x) for x in cur]: rec("C03 not idempotent",(t,hist))
print(N,nm,added)
for k,v in sorted(B.items()): print(v,k,repr(EX[k])[:900])
