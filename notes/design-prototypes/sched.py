import sys, threading, time, logging, json
logging.disable(logging.CRITICAL)
from eyecite import get_citations
import eyecite, os
ROOT=os.path.dirname(eyecite.__file__)
def ser(cs): return json.dumps([(type(c).__name__, c.span(), sorted((k,str(v)) for k,v in c.groups.items()), sorted((k,str(v)) for k,v in c.metadata.__dict__.items())) for c in cs])
class Coop:
    """Run thunks in threads, one at a time; switch after schedule[i] line events inside eyecite frames."""
    def __init__(self, thunks, schedule):
        self.n=len(thunks); self.thunks=thunks; self.schedule=list(schedule); self.results=[None]*self.n
        self.sems=[threading.Semaphore(0) for _ in thunks]; self.alive=[True]*self.n; self.cur=0; self.budget=self.next_budget(); self.switches=0
    def next_budget(self): return self.schedule.pop(0) if self.schedule else 10**9
    def pick_next(self, me):
        for d in range(1,self.n+1):
            j=(me+d)%self.n
            if self.alive[j] and j!=me: return j
        return None
    def tracer(self, i):
        def local(frame, event, arg):
            if event=='line':
                self.budget-=1
                if self.budget<=0:
                    j=self.pick_next(i)
                    self.budget=self.next_budget()
                    if j is not None:
                        self.switches+=1; self.cur=j; self.sems[j].release(); self.sems[i].acquire()
            return local
        def glob(frame, event, arg):
            if event=='call' and frame.f_code.co_filename.startswith(ROOT): return local
            return None
        return glob
    def worker(self, i):
        self.sems[i].acquire()
        sys.settrace(self.tracer(i))
        try: self.results[i]=self.thunks[i]()
        finally:
            sys.settrace(None); self.alive[i]=False
            j=self.pick_next(i)
            if j is not None: self.cur=j; self.sems[j].release()
    def run(self):
        ts=[threading.Thread(target=self.worker,args=(i,)) for i in range(self.n)]
        for t in ts: t.start()
        self.sems[0].release()
        for t in ts: t.join()
        return self.results
texts=["Foo v. Bar, 1 U.S. 1, 5 (1999). Id. at 6. Bar, supra, at 7.", "See Smith v. Jones, 2 F.2d 2 (4th Cir. 1950); 3 F.3d at 9; 42 U.S.C. § 1983.", "1 Minn. L. Rev. 1 (2007). foo supra,§, bar"]
base=[ser(get_citations(t)) for t in texts]
import random
r=random.Random(1); t0=time.time(); tot=0
for it in range(30):
    sched=[r.randint(1,60) for _ in range(r.randint(5,80))]
    c=Coop([ (lambda t=t: ser(get_citations(t))) for t in texts], sched)
    res=c.run(); tot+=c.switches
    assert res==base, (sched,res)
print('ok', time.time()-t0, 'switches', tot)
