import random, collections, sys, re, logging, datetime as _dt
Y=_dt.date.today().year
logging.disable(logging.CRITICAL)
from reporters_db import REPORTERS
from courts_db import courts
from eyecite import get_citations
from eyecite.models import *
r=random.Random(int(sys.argv[1])); N=int(sys.argv[2])
B=collections.Counter(); EX={}
def rec(k,t):
    B[k]+=1
    if k not in EX or len(repr(t))<len(repr(EX[k])): EX[k]=t
# reporters with plain template
REPS=[]
for k, cl in REPORTERS.items():
    for s in cl:
        for en, ed in s['editions'].items():
            tm = ed.get('regexes') or ['$full_cite']
            if '$full_cite' in tm:
                REPS.append((en,'ed',en))
                for v,t in s['variations'].items():
                    if t==en and not v.endswith(',') and not v.endswith(' at'): REPS.append((v,'var',en))
norm=lambda s: re.sub(r"[^\w]","",s).lower()
COURTS=[(c['citation_string'],c['id']) for c in courts if c['citation_string']]
first={}
for cs,cid in COURTS: first.setdefault(norm(cs),cid)
SYL=["ka","lo","mi","ren","tov","bar","zen","qua","dri","fel","gor","hup","jin","vas","wim","yor","plu","sha","cre","bo"]
def word(): return "".join(r.choice(SYL) for _ in range(r.randint(2,3))).capitalize()
def party(): return " ".join(word() for _ in range(r.randint(1,3)))
PROSE=["The court then turned to the merits","That reasoning was later adopted","We find this persuasive","As the panel explained"]

for it in range(N):
    R,kind,en=r.choice(REPS)
    vol=str(r.randint(1,999)); page=str(r.randint(1,9999))
    pl=party(); df=party()
    pin=r.choice(["", f"{int(page)+r.randint(0,9)}", f"{int(page)+1}-{int(page)+5}", f"{int(page)+2} n. 4", f"{int(page)+2}, {int(page)+7}"])
    year=str(r.randint(1700,Y)); 
    cs_,cid=r.choice(COURTS) if r.random()<0.6 else ("",None)
    paren=r.choice(["","holding that "+word().lower()+" applies","discussing abc (Holmes, J., concurring)","same"])
    signal=r.choice(["","See ","See also "])
    core=f"{vol} {R} {page}"
    s=f"{r.choice(PROSE)}. {signal}{pl} v. {df}, {core}"
    if pin: s+=f", {pin}"
    s+=f" ({cs_+' ' if cs_ else ''}{year})"
    if paren: s+=f" ({paren})"
    endpos=len(s)
    s+=r.choice([".",";",". "+r.choice(PROSE)+"."," "])
    cits=get_citations(s)
    if len(cits)!=1: rec(f"count{len(cits)}",(s,[(type(c).__name__,c.matched_text()) for c in cits])); continue
    c=cits[0]
    st=s.index(core, s.index(" v. "))
    if type(c) is not FullCaseCitation: rec("type "+type(c).__name__,s); continue
    if c.span()!=(st,st+len(core)): rec("span",(s,c.span())); continue
    g={k:v for k,v in c.groups.items() if v is not None}
    if g!={'volume':vol,'reporter':R,'page':page}: rec("groups",(s,g)); continue
    m=c.metadata
    if m.pin_cite!=(pin or None): rec("pin",(s,m.pin_cite)); continue
    if m.year!=year or c.year!=int(year): rec("year",(s,m.year,c.year)); continue
    if cs_:
        if m.court!=first[norm(cs_)]: rec("court",(s,cs_,m.court,first[norm(cs_)])); continue
    if m.defendant!=df: rec("defendant",(s,m.defendant)); continue
    if not m.plaintiff or not pl.endswith(m.plaintiff): rec("plaintiff",(s,m.plaintiff)); continue
    if m.parenthetical!=(paren or None): rec("paren",(s,m.parenthetical)); continue
    f0,f1=c.full_span()
    if f0!=s.index(pl)+len(pl)-len(m.plaintiff): rec("fullstart",(s,f0)); continue
    if not (endpos<=f1 and s[endpos:f1].strip()==""): rec("fullend",(s,f1,endpos)); continue
    eds=c.exact_editions if kind=='ed' else c.variation_editions
    if not any(e.short_name==en for e in eds): rec("edition",(s,R,en)); continue
print(N)
for k,v in sorted(B.items(), key=lambda x:-x[1]): print(v,k,repr(EX[k])[:420])
