import random, collections, sys, re
from eyecite import annotate_citations
r=random.Random(int(sys.argv[1])); N=int(sys.argv[2])
B=collections.Counter(); EX={}
def rec(k,t):
    B[k]+=1
    if k not in EX or len(repr(t))<len(repr(EX[k])): EX[k]=t
P="ABCDE 123.,§"; Q=["<i>","</i>","<em>","</em>","\n","\t","<p>","</p>","<br/>","zz"]
for it in range(N):
    plain="".join(r.choice(P) for _ in range(r.randint(1,25)))
    pos=[]; src=""
    for ch in plain:
        while r.random()<0.25: src+=r.choice(Q)
        pos.append(len(src)); src+=ch
    while r.random()<0.3: src+=r.choice(Q)
    # non-overlapping non-empty spans
    cuts=sorted(r.sample(range(len(plain)+1), min(len(plain)+1, 2*r.randint(1,3))))
    spans=[(cuts[i],cuts[i+1]) for i in range(0,len(cuts)-1,2) if cuts[i]<cuts[i+1]]
    anns=[(sp,"\ue000%d\ue001"%k,"\ue002%d\ue003"%k) for k,sp in enumerate(spans)]
    r.shuffle(anns)
    out=annotate_citations(plain, anns, source_text=src, unbalanced_tags="unchecked", use_dmp=True)
    if re.sub("[\ue000\ue002]\\d[\ue001\ue003]","",out)!=src: rec("preserve",(plain,src,spans,out)); continue
    found=re.findall("\ue000(\\d)\ue001(.*?)\ue002\\1\ue003",out,flags=re.S)
    if [int(k) for k,_ in found]!=list(range(len(spans))): rec("order/count",(plain,src,spans,out)); continue
    for (k,body),(s,e) in zip(found,spans):
        exp=src[pos[s]:pos[e-1]+1]
        if body!=exp: rec("exact",(plain,src,(s,e),body,exp))
print(N)
for k,v in sorted(B.items()): print(v,k,repr(EX[k])[:400])
