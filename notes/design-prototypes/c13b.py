import random, sys, logging, collections
logging.disable(logging.CRITICAL)
from gen import *
from eyecite.tokenizers import Tokenizer, AhocorasickTokenizer, EXTRACTORS
r=random.Random(int(sys.argv[1])); N=int(sys.argv[2])
def key(t): return t if isinstance(t,str) else (type(t).__name__, t.start, t.end, str(t), tuple(sorted((k,str(v)) for k,v in t.groups.items())), tuple(e.short_name for e in getattr(t,'exact_editions',())), tuple(e.short_name for e in getattr(t,'variation_editions',())), getattr(t,'short',None))
bad=0; removed=0
special=EXTRACTORS[-5:]
for it in range(N):
    t=doc(r, hostile=False)
    k=r.random()
    if k<0.3: L=list(EXTRACTORS)
    else:
        L=r.sample(EXTRACTORS[:-5], r.randint(0,400))+[e for e in special if r.random()<0.5]
        # ensure relevant ones
        L+= [e for e in EXTRACTORS[:-5] if any(s in t for s in e.strings) and r.random()<0.7][:60]
        r.shuffle(L)
    a=Tokenizer(extractors=L).tokenize(t); 
    try: b=AhocorasickTokenizer(extractors=L).tokenize(t)
    except Exception as e: bad+=1; print('raise',type(e).__name__, len(L)); continue
    if [key(x) for x in a[0]]!=[key(x) for x in b[0]] or [(i,key(x)) for i,x in a[1]]!=[(i,key(x)) for i,x in b[1]]:
        bad+=1
        if bad<4: print(repr(t)[:200], len(L))
print(N,bad)
