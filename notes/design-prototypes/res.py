import time, collections, itertools, logging, sys
logging.disable(logging.CRITICAL)
from eyecite import get_citations, resolve_citations
from eyecite.models import *
def one(text, cls, idx=None):
    cs=[c for c in get_citations(text) if isinstance(c,cls)]
    assert cs, (text, get_citations(text))
    return cs[idx if idx is not None else 0]
# alphabet: name -> (snippet, class, pick)
ALPHA={
 'FA':  ("Alpha v. Beta, 10 U.S. 100 (1999).", FullCaseCitation),
 'FA2': ("Alpha v. Beta, 10 U. S. 100, 105 (1999) (same case, variant spelling).", FullCaseCitation),
 'FB':  ("Gamma v. Delta, 10 U.S. 200 (2001).", FullCaseCitation),     # same reporter+volume as A
 'FC':  ("Alpha v. Omega, 30 F.2d 300 (1950).", FullCaseCitation),     # shares plaintiff name with A
 'FP':  ("Sigma v. Tau, 585 U.S. ___ (2018).", FullCaseCitation),      # placeholder page
 'LAW': ("Mass. Gen. Laws ch. 1, § 2.", FullLawCitation),
 'JRN': ("1 Minn. L. Rev. 1.", FullJournalCitation),
 'S_A': ("Beta, 10 U.S., at 101.", ShortCaseCitation),   # vol+reporter shared by A and B; antecedent Beta -> A
 'S_amb': ("10 U.S., at 102.", ShortCaseCitation),       # no antecedent
 'S_C': ("30 F.2d at 301.", ShortCaseCitation),          # unique to C
 'S_for': ("77 F.3d at 5.", ShortCaseCitation),          # foreign
 'SU_B': ("Delta, supra, at 201.", SupraCitation),       # unique name -> B
 'SU_amb': ("Alpha, supra, at 5.", SupraCitation),       # A and C share Alpha
 'SU_unk': ("Zeta, supra.", SupraCitation),
 'ID': ("Id.", IdCitation), 'ID_ok': ("Id. at 101.", IdCitation), 'ID_far': ("Id. at 999.", IdCitation), 'ID_bad': ("Id. at ¶ 7.", IdCitation),
 'UNK': ("see §99 of it.", UnknownCitation),
}
K=5
pool={k:[one(t,c) for _ in range(K)] for k,(t,c) in ALPHA.items()}
# reference: Gamma at 201 -> need a full cite in same text
def mkref(): 
    cs=get_citations("Gamma v. Delta, 10 U.S. 200 (2001). In Gamma at 201 we see.")
    return [c for c in cs if isinstance(c,ReferenceCitation)][0]
pool['REF_B']=[mkref() for _ in range(K)]
letters=list(pool)
print(len(letters))
for k in letters: print(k, pool[k][0])
def run(seq):
    cits=[pool[l][i] for i,l in enumerate(seq)]
    return cits, resolve_citations(cits)
t0=time.time(); n=0
L=int(sys.argv[1])
for seq in itertools.product(letters, repeat=L):
    cits,res=run(seq); n+=1
print(n, time.time()-t0)
