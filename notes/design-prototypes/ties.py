import collections, time, re
from reporters_db import REPORTERS, LAWS, JOURNALS
from eyecite.tokenizers import EXTRACTORS, default_tokenizer, Tokenizer
strings=set()
for k, cl in REPORTERS.items():
    for s in cl:
        strings.update(s['editions']); strings.update(s['variations'])
for D in (LAWS,JOURNALS):
    for k,cl in D.items():
        for s in cl: strings.add(k); strings.update(s.get('variations',[]))
ties={}
for R in sorted(strings):
    for core in (f"12 {R} 345", f"12 {R}, 345", f"12 {R} at 345"):
        toks=list(default_tokenizer.extract_tokens(" "+core+" "))
        by=collections.defaultdict(list)
        for t in toks: by[(t.start,t.end)].append(t)
        for sp,l in by.items():
            if len(l)>1:
                # mergeable?
                a=l[0]
                nm=[b for b in l[1:] if not (type(a) is type(b) and a.groups==b.groups and getattr(a,'short',0)==getattr(b,'short',0))]
                if nm: ties[core]=[(type(x).__name__, dict(x.groups), getattr(x,'short',None)) for x in l]
print(len(ties))
for k,v in list(ties.items())[:12]: print(repr(k), v)
