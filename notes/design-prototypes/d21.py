import logging; logging.disable(logging.CRITICAL)
from eyecite import get_citations
from eyecite.models import *
from eyecite.helpers import filter_citations
from eyecite.find import extract_reference_citations
t="Jones v. Holmes, 123 Ga. 12 (1999). The court in Holmes at 5 Smith, 99 said so."
cs=get_citations(t)
for c in cs: print(type(c).__name__, repr(c.matched_text()), c.span(), c.full_span())
t2="Jones v. Holmes, 123 Ga. 12 (1999). Roe v. Wade, and others as in Holmes at 5 Smith, 99 said so."
print('---')
cs=get_citations(t2)
for c in cs: print(type(c).__name__, repr(c.matched_text()), c.span(), c.full_span())
