import random, collections, sys, re, logging, os
logging.disable(logging.CRITICAL)
from gen import *
from eyecite.tokenizers import Tokenizer, HyperscanTokenizer
os.makedirs('/tmp/x/hc2',exist_ok=True)
ref=Tokenizer(); hs=HyperscanTokenizer(cache_dir='/tmp/x/hc2')
r=random.Random(int(sys.argv[1])); N=int(sys.argv[2])
B=collections.Counter(); EX={}
def rec(k,t):
    B[k]+=1
    if k not in EX or len(repr(t))<len(repr(EX[k])): EX[k]=t
MB=["“","”","—","é","ü","§","¶","‘","’","ñ"]
def key(t): return (type(t).__name__, t.start, t.end, str(t), tuple(sorted((k,v) for k,v in t.groups.items())), tuple(sorted(e.short_name for e in getattr(t,'exact_editions',()))), tuple(sorted(e.short_name for e in getattr(t,'variation_editions',()))), getattr(t,'short',None))
def genuine(ex, text, start, end):
    import re as _re
    W1="(?:^|[^a-zA-Z0-9])("; W1e=")(?:[^a-zA-Z0-9]|$)"; W2="(?:^|\\s)("; W2e=")(?:\\s|$)"
    rg=ex.regex
    if rg.startswith(W1) and rg.endswith(W1e): core=rg[len(W1):-len(W1e)]; ok=lambda ch: not (ch.isascii() and ch.isalnum())
    elif rg.startswith(W2) and rg.endswith(W2e): core=rg[len(W2):-len(W2e)]; ok=lambda ch: ch.isspace()
    else: core=rg[1:-1]; ok=lambda ch: True
    if not hasattr(ex,'_core'): ex._core=_re.compile(core, ex.flags)
    if ex._core.fullmatch(text,start,end) and (start==0 or ok(text[start-1])) and (end==len(text) or ok(text[end])): return True
    return False
    rx=ex.compiled_regex
    bs=[start] if start==0 else [start-1]
    es=[end] if end==len(text) else [end+1]
    if start>0: pass
    for b in bs:
        for e in es:
            m=rx.fullmatch(text,b,e)
            if m and m.span(1)==(start,end): return True
    # section/paragraph regex have no boundaries
    m=rx.fullmatch(text,start,end)
    if m and m.span(1)==(start,end) and not ex.regex.startswith("(?:^|"): return True
    return False
by_regex={}
for it in range(N):
    t=doc(r, hostile=False)
    # sprinkle multibyte chars
    s=list(t)
    for _ in range(r.randint(0,4)):
        i=r.randint(0,len(s)); s.insert(i,r.choice(MB))
    t="".join(s)
    a={}; 
    for ex in ref.extractors:
        pass
    ra=collections.defaultdict(list)
    A=set(key(x) for x in ref.extract_tokens(t))
    Bk={}
    # hs tokens with their extractor: replicate by calling extract_tokens and mapping via regex search
    try: hb=list(hs.extract_tokens(t))
    except Exception as e: rec(f"raise {type(e).__name__}",t); continue
    HB=set(key(x) for x in hb)
    for k in A-HB:
        # adjacency to multibyte
        st,en=k[1],k[2]
        adj = (st>0 and ord(t[st-1])>127) or (en<len(t) and ord(t[en])>127)
        rec("missing "+("mb-adjacent" if adj else "NOT-mb-adjacent"), (t,k[:4]))
    for k in HB-A:
        # genuine? need extractor: find any extractor of same type whose fullmatch works
        ok=False
        for ex in hs.extractors:
            if ex.constructor.__self__.__name__!=k[0]: continue
            if not any(s_ in t for s_ in ex.strings) and ex.strings and not ex.flags: continue
            if genuine(ex,t,k[1],k[2]): ok=True; break
        if not ok: rec("extra not genuine",(t,k[:4]))
print(N)
for k,v in sorted(B.items(), key=lambda x:-x[1]): print(v,k,repr(EX[k])[:300])
